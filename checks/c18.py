"""C18 (E3 + closed clauses + E1)."""
import sys
sys.path.insert(0, "/verif")
from vf.main import run_prop
from vf.report import main_wrapper

if __name__ == "__main__":
    main_wrapper(lambda: run_prop("C18"))
