"""C10 - optimisation never changes what the circuit does (E1 twin equivalence + CrossHair on CSEOptimizer._make_key)."""
import sys
sys.path.insert(0, "/verif")
from vf.main import run_prop
from vf.report import main_wrapper
from vf.crosshair_run import part

if __name__ == "__main__":
    main_wrapper(lambda: run_prop("C10", extra_parts=[part(["c10_cse_key_injective_decider", "c10_cse_key_injective_arith"], [])]))
