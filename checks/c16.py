"""C16 - a for loop equals its unrolling (E1 vs the generator's unrolling + CrossHair on ForStmt.get_iteration_values)."""
import sys
sys.path.insert(0, "/verif")
from vf.main import run_prop
from vf.report import main_wrapper
from vf.crosshair_run import part

if __name__ == "__main__":
    main_wrapper(lambda: run_prop("C16", extra_parts=[part(["c16_iteration_values_explicit_step", "c16_iteration_values_default_step"], ["c16_iteration_values_twin_reachability"])]))
