"""C07 - the printed blueprint string carries the whole circuit (real CLI subprocesses; decoded text vs planned circuit)."""
import collections
import sys
sys.path.insert(0, "/verif")
from vf.main import run_prop
from vf.report import main_wrapper


def post(run, results, cov):
    """string == --json == -o == every entry point: all cells of one (program, option set) decode to ONE blueprint"""
    groups = collections.defaultdict(dict)
    for key, r in results.items():
        if r.get("canon_hash"):
            groups[r["group"]][key] = r["canon_hash"]
    disagree = 0
    for g, cells in groups.items():
        common = collections.Counter(cells.values()).most_common(1)[0][0]
        for key, h in sorted(cells.items()):
            if h != common:
                disagree += 1
                run.violation(f"{key}:same-blueprint", f"cell decodes to a different blueprint than the other invocations of the same program/options ({g})", {"group": g, "closed": True})
    cov["invocation_groups"] = len(groups)
    cov["cells_compared_across_forms"] = sum(len(c) for c in groups.values())


if __name__ == "__main__":
    main_wrapper(lambda: run_prop("C07", post=post))
