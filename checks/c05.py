"""C05 - set/reset latches (E1 bounded model checking + CrossHair on MemoryBuilder._invert_comparison)."""
import sys
sys.path.insert(0, "/verif")
from vf.main import run_prop
from vf.report import main_wrapper
from vf.crosshair_run import part

if __name__ == "__main__":
    main_wrapper(lambda: run_prop("C05", extra_parts=[part(["c05_invert_comparison_is_negation"], [])]))
