"""C11 - compile-time arithmetic equals run-time arithmetic (E2 kernels from source + E1 fold sites)."""
import sys
sys.path.insert(0, "/verif")
from vf.main import run_prop
from vf.report import main_wrapper

if __name__ == "__main__":
    main_wrapper(lambda: run_prop("C11"))
