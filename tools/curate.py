"""Maintainer tool (never run by checks): run the candidate programs of a property on the CURRENT tree,
write /verif/corpus/<prop>.json (clean cases + a few representatives of genuine baseline defects) and
merge the representatives' keys into known_findings.json."""
import sys, json, os, time, collections
sys.path.insert(0, '/verif')
from vf import props, runner, report, driver, work

def main():
    prop = sys.argv[1]
    cfg = props.PROPS[prop]
    cands = cfg["candidates"]("thorough")
    quick_ids = {c["id"] for c in cfg["candidates"]("quick")}
    defaults = dict(cfg["defaults"]); defaults.update(cfg.get("thorough_defaults", {}))
    tasks = [runner.make_task(c, defaults) for c in cands]
    comp = driver.Compiler()
    res = {}
    t0 = time.time()
    for t, r in comp.map(tasks, fn=work.do_task):
        res[t["key"]] = r
    comp.close()
    # a failing case is still a detector (a regression shows up as a NEW key) and sampled selections must not shift when
    # a family grows: a case (and its quick flag) that an earlier corpus kept is never dropped.  corpus/pinned_<prop>.json
    # records every id ever kept and every id ever in the quick tier.
    pin_path = f'/verif/corpus/pinned_{prop}.json'
    pins = json.load(open(pin_path)) if os.path.exists(pin_path) else {"ids": [], "quick": []}
    pinned_ids, pinned_quick = set(pins["ids"]), set(pins["quick"])
    if os.path.exists(f'/verif/corpus/{prop}.json'):
        prev = json.load(open(f'/verif/corpus/{prop}.json'))
        pinned_ids |= {c["id"] for c in prev["cases"]}
        pinned_quick |= {c["id"] for c in prev["cases"] if c.get("quick")}
    quick_ids |= pinned_quick
    keep_fail = cfg.get("keep_fail", 4)
    kept, excluded, findings = [], [], []
    nfail = 0
    nfail_fixed = 0
    keep_fail_fixed = cfg.get("keep_fail_fixed", 10)
    stats = collections.Counter()
    for c in cands:
        r = res[c["id"]]
        if "rec" not in r or r["rec"]["harness_errors"]:
            stats["harness"] += 1
            print("HARNESS", c["id"], (r.get("rec") or {}).get("harness_errors", r.get("error"))); excluded.append(c["id"]); continue
        c = dict(c); c["quick"] = c["id"] in quick_ids
        if r["findings"]:
            stats["failing"] += 1
            pinned = bool(c.get("pin")) or c["id"] in pinned_ids
            is_fixed = c.get("family") == "fixed"
            if pinned or (is_fixed and nfail_fixed < keep_fail_fixed) or (not is_fixed and nfail < keep_fail):
                if is_fixed and not pinned: nfail_fixed += 1
                elif not pinned: nfail += 1
                kept.append(c)
                for f in r["findings"]:
                    findings.append({"property": prop, "key": f["key"], "what": f["what"][:300]})
            else:
                excluded.append(c["id"])
        else:
            if r["ok_builds"] == 0: stats["rejected"] += 1
            elif r["rec"]["inconclusive"]: stats["inconclusive"] += 1
            else: stats["clean"] += 1
            kept.append(c)
    out = {"property": prop, "generated_by": "tools/curate.py", "stats": dict(stats), "excluded_known_defect_duplicates": excluded, "cases": kept}
    os.makedirs('/verif/corpus', exist_ok=True)
    json.dump(out, open(f'/verif/corpus/{prop}.json', 'w'), indent=0)
    json.dump({"ids": sorted({c["id"] for c in kept} | pinned_ids), "quick": sorted({c["id"] for c in kept if c["quick"]} | pinned_quick)}, open(pin_path, 'w'))
    seen = set(); uniq = []
    for f in findings:
        if f["key"] not in seen:
            seen.add(f["key"]); uniq.append(f)
    findings = uniq
    kf = json.load(open(report.KNOWN_PATH))
    kf["findings"] = [e for e in kf["findings"] if e.get("property") != prop or e.get("manual")] + findings
    json.dump(kf, open(report.KNOWN_PATH, 'w'), indent=1)
    print(prop, dict(stats), "kept", len(kept), "excluded", len(excluded), "known-finding keys", len(findings), "quick", sum(1 for c in kept if c["quick"]), "wall", round(time.time()-t0,1))

if __name__ == "__main__":
    main()
