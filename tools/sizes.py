"""Maintainer tool: quick / thorough corpus sizes per property (for DESIGN.md 10.2)."""
import glob, json
for f in sorted(glob.glob('/verif/corpus/C*.json')):
    c = json.load(open(f))
    q = sum(1 for x in c['cases'] if x.get('quick'))
    print(c['property'], f"{q} / {len(c['cases'])}", c['stats'], 'excluded', len(c['excluded_known_defect_duplicates']))
