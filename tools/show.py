import sys
sys.path.insert(0,'/verif')
from vf import families, gen
fam, idx = sys.argv[1], sys.argv[2]
if fam=='fixed':
    c=[x for x in families.fam_expr_fixed() if x['id']==idx][0]
else:
    c=getattr(families,'fam_'+fam)(int(idx))
print(gen.program_src(c['stmts'], sys.argv[3] if len(sys.argv)>3 else 'min'))
