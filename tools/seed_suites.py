"""Run the repository test suite for every kept seed whose meta.json says suite pending (scratch worktree).
usage: seed_suites.py [shard nshards]"""
import json, glob, os, subprocess, sys, time
SHARD, NSH = (int(sys.argv[1]), int(sys.argv[2])) if len(sys.argv) > 2 else (0, 1)
WT = "/tmp/wt/suite" if NSH == 1 else f"/tmp/wt/suite{SHARD}"
def sh(c, cwd=None, t=7200):
    p = subprocess.run(c, shell=True, cwd=cwd, capture_output=True, text=True, timeout=t); return p.returncode, p.stdout + p.stderr
if not os.path.isdir(WT):
    print(sh(f"git -C /repo worktree add -q --detach {WT} HEAD"))
PENDING = [mp for mp in sorted(glob.glob("/verif/seeded/*/meta.json")) if json.load(open(mp))["confirmed"].get("suite") == "pending"]
for mp in PENDING[SHARD::NSH]:
    meta = json.load(open(mp))
    d = os.path.dirname(mp)
    sh("git checkout -- . && git clean -fdq", cwd=WT)
    rc, o = sh(f"git apply {d}/patch.diff", cwd=WT)
    if rc: meta["confirmed"]["suite"] = "patch does not apply: " + o[:200]
    else:
        t0 = time.time()
        rc, o = sh("/venv/bin/python -m pytest -q -p no:cacheprovider --timeout=900 -n 6 --reruns 2 --only-rerun 'timed out|Timeout' 2>&1 | tail -6", cwd=WT)
        lines = o.strip().splitlines()
        failed = [l for l in lines if l.startswith("FAILED")]
        meta["confirmed"]["suite"] = (lines[-1] if lines else "") + " | " + "; ".join(failed)
        meta["confirmed"]["suite_secs"] = round(time.time() - t0)
    json.dump(meta, open(mp, "w"), indent=1)
    print(meta["id"], meta["confirmed"]["suite"], flush=True)
sh("git checkout -- . && git clean -fdq", cwd=WT)
