"""Developer tool: run a family through the stateless engine and print a classification table."""
import sys, json, time, collections
sys.path.insert(0, '/verif')
from vf import families, driver, work, gen

BUILDS = [{"tag": "opt", "optimize": True}, {"tag": "noopt", "optimize": False}]

def main():
    fam = sys.argv[1]
    n = int(sys.argv[2]) if len(sys.argv) > 2 else 40
    out_path = sys.argv[3] if len(sys.argv) > 3 else None
    if fam.endswith("_fixed"):
        cases = getattr(families, "fam_" + fam)()
    elif fam == "fixed":
        cases = families.fam_expr_fixed()
    else:
        f = getattr(families, "fam_" + fam)
        cases = [f(i) for i in range(n)]
    tasks = [{"key": c["id"], "kind": c.get("kind", "stateless"), "stmts": c["stmts"], "builds": BUILDS, "modes": ["full", "min"], **c.get("params", {})} for c in cases]
    comp = driver.Compiler()
    t0 = time.time()
    res = {}
    for t, r in comp.map(tasks, fn=work.do_task):
        res[t["key"]] = r
    comp.close()
    stats = collections.Counter()
    detail = []
    for c in cases:
        r = res[c["id"]]
        if "rec" not in r:
            stats["worker-failure"] += 1; print("WF", c["id"], r.get("error")); continue
        nb = r["ok_builds"]
        if r["rec"]["harness_errors"]:
            stats["harness-error"] += 1
            print("HARNESS", c["id"], r["rec"]["harness_errors"][0]["why"][:600])
        elif nb == 0:
            stats["rejected"] += 1
            print("REJ", c["id"], r["compiled"][0]["error"][:160].replace("\n", " "))
        elif r["findings"]:
            stats["violating"] += 1
            for f in r["findings"]:
                print("VIOL", f["key"], f["what"][:230])
        elif r["rec"]["inconclusive"]:
            stats["inconclusive"] += 1
            print("INC", c["id"], r["rec"]["inconclusive"][0])
        else:
            stats["clean"] += 1
        detail.append({"id": c["id"], "findings": [f["key"] for f in r["findings"]], "ok_builds": nb, "inc": len(r["rec"]["inconclusive"])})
    print(dict(stats), "wall", round(time.time() - t0, 1))
    if out_path:
        json.dump(detail, open(out_path, "w"), indent=0)

if __name__ == "__main__":
    main()
