"""Regenerate /verif/MANIFEST.json from the table below (maintainer tool)."""
import json
import os

PY = "/verif/.venv/bin/python"
E1_NOTE = "Trusted: the Factorio 2.0 circuit model in vf/bp.py (DESIGN.md section 3), z3, the reference interpreter vf/gen.py. Programs are enumerated from fixed corpora (bounded size); run-time values are universally quantified by the solver; uninterpreted corners (a**b for b outside 0..8, shift counts outside 0..31, INT_MIN/-1) are outside the claim."

CHECKS = {
    "C01": ("translation_validation", "E1 bp2smt",
            "For each program of a fixed corpus the real compiler's emitted blueprint JSON is encoded as QF_UFBV terms and z3 decides, for ALL int32 input valuations, that every named output equals the reference computed from the generator's own AST on the carrier signal the language rules assign; counterexamples are replayed on a concrete simulator before being reported.",
            "SMT (z3 QF_UFBV) translation validation of the emitted blueprint, per program, all inputs"),
    "C02": ("translation_validation", "E1 bp2smt",
            "Same engine as C01 on bundle programs: z3 decides for all input valuations that a bundle-valued anchor carries exactly the member-wise reference on EVERY signal of the universe (program signals + 2 fresh), so leaked scalar/condition signals and missing members are both counterexamples.",
            "SMT (z3 QF_UFBV) translation validation over the whole signal universe, all inputs"),
    "C03": ("model_checking", "E1 bp2smt BMC",
            "Bounded model checking of the emitted blueprint: the circuit is unrolled tick by tick from the all-zero state, every step of the input history has its own symbolic copy of the inputs (at most one changed per step, held S ticks) and z3 decides that every reader equals the step-level latch reference at the end of every step, for all histories of K steps.",
            "SMT bounded model checking (unrolled ticks, symbolic input histories)"),
    "C04": ("model_checking", "E1 bp2smt BMC",
            "Bounded model checking from power-on: z3 searches a round-trip latency L such that value(t+L)=f(value(t)) for all held inputs and all ticks within three round trips, f taken from the generator's AST; a counterexample per candidate L is replayed concretely.",
            "SMT bounded model checking of the feedback ring, all held inputs"),
    "C05": ("model_checking", "E1 bp2smt BMC",
            "Bounded model checking as C03 against the four-row set/reset truth table with the declared priority, inputs ranging over all int32 values (not only threshold boundaries).",
            "SMT bounded model checking (unrolled ticks, symbolic input histories) + CrossHair on MemoryBuilder._invert_comparison"),
    "C06": ("translation_validation", "E1 bp2smt",
            "z3 decides for all input valuations and all non-negative contents of entities read through .output that the circuit condition of the entity found at the user tile, evaluated on the networks actually wired to it, is true exactly when the assigned expression is positive; a missing circuit condition is a closed-form violation.",
            "SMT (z3 QF_UFBV) translation validation of entity circuit conditions, all inputs and contents"),
    "C07": ("translation_validation", "E1 bp2smt + closed clauses",
            "Every invocation cell runs the real entry point as a subprocess; the decoded stdout / -o text is compared with the planned circuit (an independent reading of the LayoutPlan captured in the same run): closed entity-by-entity / wire-by-wire equality modulo numbering and z3 equivalence of decoded text and plan on every output and entity condition for all inputs (K-step histories for stateful programs); all cells of one program/option set must decode to one blueprint.",
            "SMT equivalence of decoded CLI text and planned circuit + exhaustive invocation matrix"),
    "C08": ("other", "E3 cpsat2smt + E1 + closed clauses",
            "All-outcomes clause by solver: every CP-SAT model the layout engine builds is captured and translated to z3; `exists placement with two intersecting collision boxes` must be UNSAT, and user entities must be singleton variables at the program's tiles - a verdict for every placement the solver may return under any time budget. Post-solve stages (relays, wiring, emission) are checked on contract-conforming outcomes (real solve, first k solves UNKNOWN, z3-chosen adversarial placements accepted by the real CP-SAT) with closed paste clauses and the E1 reference check.",
            "captured CP-SAT model -> z3 (all solver outcomes) + closed paste clauses on solver-chosen outcomes"),
    "C09": ("other", "E3 cpsat2smt + closed clauses + E1",
            "All-outcomes clause by solver: in every captured CP-SAT model the user-placed entities are singleton-domain variables at exactly the tiles the generator's own interpreter predicts and no two collision boxes can intersect (z3 UNSAT). Per outcome (real solve, 3 UNKNOWN solves, pole options): the multiset of (prototype, top-left tile) of non-compiler entities equals the prediction (loops unrolled and calls expanded by the generator), static properties applied; entity conditions by E1 for all inputs.",
            "captured CP-SAT model -> z3 (fixed variables, all outcomes) + closed multiset clause + SMT translation validation"),
    "C10": ("translation_validation", "E1 bp2smt twins",
            "Two blueprints of the same source (optimised / --no-optimize) produced by the real compiler are encoded side by side over shared input variables; z3 decides equality of every common named output and entity condition for all inputs, and of the end-of-step values for all K-step histories of stateful programs.",
            "SMT equivalence checking of two emitted blueprints (all inputs / bounded histories) + CrossHair on CSEOptimizer._make_key"),
    "C11": ("other", "E2 pyast2smt + E1 bp2smt",
            "Integer-kernel property. E2: the three fold kernels are re-read from /repo at every run, specialised per operator and executed symbolically (vf/pyast2smt.py: paths as ite, Python ints as bit-vectors whose width is justified by interval analysis); z3 decides per operator and sign region, over ALL int32 operand pairs in the interpreted domain, that an in-range folded value equals the run-time value; models are replayed on the real function. E1: the same constant expression in 16 syntactic positions is validated against the run-time reference for all values of the other inputs.",
            "symbolic execution of the real fold kernels from source (AST -> z3 bit-vectors) + SMT translation validation of folded blueprints"),
    "C12": ("translation_validation", "E1 bp2smt twins",
            "build(P||Q) for order-preserving interleavings is compared with build(P) and build(Q) over disjoint input variables: z3 decides that P's outputs and entity conditions are the same functions of P's inputs alone (hence independent of every input of Q), and vice versa.",
            "SMT equivalence / non-interference of emitted blueprints, all inputs of P and Q"),
    "C13": ("translation_validation", "E1 bp2smt twins + closed clause",
            "Closed clause evaluated on the emitted blueprint (allocated signal of every untyped value vs the signals written in the source) plus z3 equivalence of the program with its explicitly renamed twin for all inputs.",
            "SMT equivalence with the renamed twin + closed allocation check"),
    "C15": ("translation_validation", "E1 bp2smt",
            "The blueprint of a program with function calls is compared, for all inputs (K-step histories for local memories), with the generator's own call-by-substitution interpreter; placed entities compared as a multiset.",
            "SMT translation validation against a substitution-semantics reference"),
    "C16": ("translation_validation", "E1 bp2smt",
            "The blueprint of a program with for loops is compared, for all inputs, with the generator's own unrolling (mathematical range definition); placed entities compared as a multiset.",
            "SMT translation validation against an unrolling reference + CrossHair on ForStmt.get_iteration_values"),
    "C17": ("translation_validation", "E1 bp2smt",
            "Library: each documented function of lib/math.facto, compiled through a one-line caller, equals its documented definition for ALL int32 arguments satisfying a no-overflow precondition written as a formula. Imports: generated import graphs on disk (chains, diamonds, cycles, sub-directories, decoy files) compiled from three working directories equal the pasted twin for all inputs.",
            "SMT translation validation against documented definitions under formula preconditions; import graphs enumerated"),
    "C18": ("other", "closed clauses + E1 twins",
            "Solver part: the build with --power-poles T is equivalent to the build without for all inputs (z3, twins). Closed clauses with game data on the emitted blueprint of the real solver outcome (and after 3 UNKNOWN solves): every electricity consumer intersects a supply area of a pole of type T, the poles of type T form one copper network, copper wires within reach of both ends, no stray pole without the option. Coverage is NOT decided for all solver outcomes (the trimming rule was not encoded).",
            "SMT equivalence poles vs no poles + closed coverage/connectivity clauses on solver outcomes"),
    "C20": ("translation_validation", "E1 bp2smt + closed clauses",
            "At the anchor labelled with each unconsumed top-level name z3 decides that the result's own signal (every signal for bundles) equals the reference for all inputs; closed clauses: exactly one wired empty anchor per unconsumed name, none for consumed names, producer labelled with name and source line, inputs labelled with name and value.",
            "SMT translation validation keyed by every unconsumed name + closed label clauses"),
}

NOT_APPLICABLE = {
    "C14": "ill-formed-program rejection has no run-time/symbolic dimension: the deciding code is the LALR parser and the semantic visitor over heap ASTs, which CrossHair/z3 cannot execute symbolically here (DESIGN.md section 6)",
    "C19": "determinism over hash seeds/processes/cwd is a property of interpreter-global state, not of any value a solver can range over; deciding it would be concrete enumeration (DESIGN.md section 6)",
}

PENDING = "check not built yet in this commit (planned, see DESIGN.md section 5)"


def main():
    root = os.path.dirname(os.path.dirname(os.path.abspath(__file__)))
    props = [json.loads(l) for l in open(os.path.join(root, "properties.jsonl"))]
    checks = []
    for pid, (level, engine, text, technique) in sorted(CHECKS.items()):
        script = f"/verif/checks/{pid.lower()}.py"
        checks.append({
            "property_id": pid,
            "quick_cmd": f"sh /verif/setup.sh >/dev/null && VERIF_TIER=quick {PY} {script}",
            "thorough_cmd": f"sh /verif/setup.sh >/dev/null && VERIF_TIER=thorough {PY} {script}",
            "evidence_file": f"/verif/evidence/{pid}.json",
            "replay_cmd_template": f"{PY} -m vf.replay {{path}}",
            "engine": engine,
            "level_claimed": {"category": level, "text": text, "design_ref": f"DESIGN.md section 5 {pid}"},
            "level_note": E1_NOTE,
            "technique": technique,
        })
    na = []
    for p in props:
        if p["id"] in CHECKS:
            continue
        na.append({"property_id": p["id"], "reason": NOT_APPLICABLE.get(p["id"], PENDING)})
    m = {
        "version": 1,
        "setup_cmd": "sh /verif/setup.sh",
        "hooks": {
            "guard": "FACTOMPILER_VERIF",
            "enable": "no source hooks: the harness wraps CpSolver.solve at run time from /verif (vf/driver.py); the guard name is reserved and unused",
            "baseline_off_cmd": "cd /repo && /venv/bin/python -m pytest -ra -q -p no:cacheprovider --timeout=900 --continue-on-collection-errors",
            "source_commits": [],
            "add_only": True,
        },
        "engines": [
            {"name": "E1 bp2smt", "path": "/verif/vf", "serves_properties": sorted(CHECKS), "kind_free_text": "emitted blueprint JSON -> z3 QF_UFBV; inputs, histories, entity contents symbolic; reference from the generator's own AST"},
            {"name": "E3 cpsat2smt", "path": "/verif/vf/cpsat2smt.py", "serves_properties": ["C08", "C09"], "kind_free_text": "CpModel protos captured at CpSolver.solve -> z3 LIA; all-outcomes queries; candidate outcomes pinned back into the real CP-SAT"},
            {"name": "E2 pyast2smt / CrossHair", "path": "/verif/vf/pyast2smt.py", "serves_properties": ["C05", "C11", "C16"], "kind_free_text": "compiler kernels executed symbolically from their current source (AST -> z3) or by CrossHair on the real functions"},
        ],
        "checks": checks,
        "not_applicable": na,
        "notes": "All checks are solver-based (z3 / CrossHair). Known genuine defects of the pinned tree are listed per failing case in /verif/known_findings.json; fixed ones under 'fixed'.",
    }
    json.dump(m, open(os.path.join(root, "MANIFEST.json"), "w"), indent=1)
    print("manifest:", len(checks), "checks,", len(na), "not claimed")


if __name__ == "__main__":
    main()
