"""Merge seeded/<id>/matrix.json (written by seed_matrix.py) into meta.json and remove it."""
import glob, json, os
for mj in sorted(glob.glob("/verif/seeded/*/matrix.json")):
    mp = os.path.join(os.path.dirname(mj), "meta.json")
    meta = json.load(open(mp)); meta.update(json.load(open(mj)))
    json.dump(meta, open(mp, "w"), indent=1); os.remove(mj)
    print("merged", meta["id"], meta["caught_by_quick_checks"])
