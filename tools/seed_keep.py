"""Keep a confirmed seeded regression under /verif/seeded/<id>/ (patch.diff, demo.py, notes.md, meta.json).
usage: seed_keep.py <seed_dir> <id> <property> <caught_by comma list or -> "<needs>" """
import json, os, shutil, sys
seed, sid, prop, caught, needs = sys.argv[1:6]
dst = f"/verif/seeded/{sid}"
os.makedirs(dst, exist_ok=True)
for f in ("patch.diff", "demo.py", "notes.md"):
    if os.path.exists(os.path.join(seed, f)):
        shutil.copy(os.path.join(seed, f), os.path.join(dst, f))
meta = {"id": sid, "breaks_property": prop, "needs_to_manifest": needs,
        "caught_by_quick_checks": [c for c in caught.split(",") if c and c != "-"],
        "confirmed": {"demo_exit_clean_tree": 0, "demo_exit_patched": 1, "suite": "pending"},
        "ran": ["git apply patch.diff in a scratch worktree; /venv/bin/python demo.py (exit 0 clean, 1 patched)",
                "git -C /repo apply patch.diff; VERIF_TIER=quick checks; git -C /repo checkout -- ."]}
json.dump(meta, open(os.path.join(dst, "meta.json"), "w"), indent=1)
print("kept", dst)
