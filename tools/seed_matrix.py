"""Run the quick check(s) of every kept seed against a scratch worktree with the seed's patch applied
(VERIF_REPO=<worktree>; /repo is never touched) and record what each check reports in meta.json."""
import json, glob, os, subprocess, sys, time
WT = os.environ.get("MATRIX_WT", "/tmp/wt/matrix")
SHARD, NSH = int(os.environ.get("MATRIX_SHARD", "0")), int(os.environ.get("MATRIX_NSHARDS", "1"))
def sh(c, cwd=None, env=None, t=7200):
    p = subprocess.run(c, shell=True, cwd=cwd, capture_output=True, text=True, timeout=t, env=env); return p.returncode, p.stdout, p.stderr
if not os.path.isdir(WT):
    print(sh(f"git -C /repo worktree add -q --detach {WT} HEAD"))
only = sys.argv[1:] 
ALL = [mp for mp in sorted(glob.glob("/verif/seeded/*/meta.json")) if not only or any(o in mp for o in only)]
for mp in ALL[SHARD::NSH]:
    meta = json.load(open(mp))
    d = os.path.dirname(mp)
    sh("git checkout -- . && git clean -fdq", cwd=WT)
    rc, o, e = sh(f"git apply {d}/patch.diff", cwd=WT)
    if rc: print(meta["id"], "PATCH FAILS", e[:200]); continue
    env = dict(os.environ, VERIF_REPO=WT, VERIF_TIER="quick", VERIF_EVIDENCE_DIR=f"/tmp/wt/matrix_evidence{SHARD}")
    res = {}
    props = sorted(set([meta["breaks_property"]] + meta.get("caught_by_quick_checks", [])))
    for p in props:
        t0 = time.time()
        rc, o, e = sh(f"/verif/.venv/bin/python /verif/checks/{p.lower()}.py", cwd="/verif", env=env)
        nv = sum(1 for l in o.splitlines() if l.startswith("VIOLATION"))
        res[p] = {"exit": rc, "violations": nv, "secs": round(time.time() - t0)}
    # written beside meta.json (merged later by tools/seed_merge.py) so that a concurrent seed_suites.py run cannot lose it
    json.dump({"matrix": res, "caught_by_quick_checks": sorted(p for p, r in res.items() if r["exit"] == 1 and r["violations"] > 0)}, open(os.path.join(d, "matrix.json"), "w"), indent=1)
    print(meta["id"], res, flush=True)
sh("git checkout -- . && git clean -fdq", cwd=WT)
