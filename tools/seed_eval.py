"""Evaluate a seeded regression in a scratch worktree (never /repo): demo exit codes clean/patched, then the
registered quick checks with VERIF_REPO=<worktree>.  usage: seed_eval.py <seed_dir> <worktree> <PROP>[,PROP...]"""
import json, os, subprocess, sys, time

def sh(cmd, cwd=None, timeout=7200, env=None):
    p = subprocess.run(cmd, shell=True, cwd=cwd, capture_output=True, text=True, timeout=timeout, env=env)
    return p.returncode, p.stdout, p.stderr

def main():
    seed, wt, props = sys.argv[1], sys.argv[2], sys.argv[3].split(",")
    tier = "thorough" if "--thorough" in sys.argv else "quick"
    patch = os.path.join(seed, "patch.diff")
    res = {"seed": seed, "props": props}
    sh("git checkout -- . && git clean -fdq", cwd=wt)
    import shutil
    shutil.copy(os.path.join(seed, "demo.py"), os.path.join(wt, "_seed_demo.py"))  # the demo is specified to run from the repo root
    rc0, _, _ = sh("/venv/bin/python _seed_demo.py", cwd=wt)
    rc, out, err = sh(f"git apply {patch}", cwd=wt)
    if rc != 0:
        print("PATCH DOES NOT APPLY", err); return 2
    shutil.copy(os.path.join(seed, "demo.py"), os.path.join(wt, "_seed_demo.py"))
    rc1, out1, err1 = sh("/venv/bin/python _seed_demo.py", cwd=wt)
    res["demo_clean_rc"], res["demo_patched_rc"] = rc0, rc1
    res["demo_patched_tail"] = (out1 + err1)[-300:]
    env = dict(os.environ, VERIF_REPO=wt, VERIF_TIER=tier, VERIF_EVIDENCE_DIR="/tmp/wt/eval_evidence")
    res["checks"] = {}
    try:
        for p in props:
            t0 = time.time()
            rc, o, e = sh(f"/verif/.venv/bin/python /verif/checks/{p.lower()}.py", cwd="/verif", env=env)
            lines = o.splitlines()
            viol = [l for l in lines if l.startswith("VIOLATION")]
            detail = [lines[i + 1] for i, l in enumerate(lines) if l.startswith("VIOLATION") and i + 1 < len(lines)][:4]
            res["checks"][p] = {"rc": rc, "violations": len(viol), "first": [d[:260] for d in detail], "tail": lines[-1][-300:] if lines else "", "secs": round(time.time() - t0)}
    finally:
        sh("git checkout -- . && git clean -fdq", cwd=wt)
    print(json.dumps(res, indent=1))
    return 0

if __name__ == "__main__":
    sys.exit(main())
