"""Evaluate a seeded regression: demo passes/fails in a scratch worktree, then the registered checks run against
/repo with the patch applied (and /repo is restored).  usage: seed_eval.py <seed_dir> <worktree> <PROP>[,PROP...] [--suite]"""
import json, os, subprocess, sys, time

def sh(cmd, cwd=None, timeout=3600):
    p = subprocess.run(cmd, shell=True, cwd=cwd, capture_output=True, text=True, timeout=timeout)
    return p.returncode, (p.stdout + ("" if "checks/" in cmd else p.stderr))

def main():
    seed, wt, props = sys.argv[1], sys.argv[2], sys.argv[3].split(",")
    suite = "--suite" in sys.argv
    tier = "thorough" if "--thorough" in sys.argv else "quick"
    patch = os.path.join(seed, "patch.diff")
    res = {"seed": seed, "props": props}
    sh("git checkout -- . && git clean -fdq", cwd=wt)
    rc0, _ = sh(f"/venv/bin/python {seed}/demo.py", cwd=wt)
    rc, out = sh(f"git apply {patch}", cwd=wt)
    if rc != 0:
        print("PATCH DOES NOT APPLY", out); return 2
    rc1, out1 = sh(f"/venv/bin/python {seed}/demo.py", cwd=wt)
    res["demo_clean_rc"], res["demo_patched_rc"] = rc0, rc1
    res["demo_patched_tail"] = out1[-600:]
    if suite:
        t0 = time.time()
        _rc, o = sh("/venv/bin/python -m pytest -q -p no:cacheprovider --timeout=900 -n 8 2>&1 | tail -4", cwd=wt, timeout=7200)
        res["suite_tail"] = o.strip().splitlines()[-1] if o.strip() else ""
        res["suite_failed_lines"] = [l for l in o.splitlines() if l.startswith("FAILED")]
        res["suite_secs"] = round(time.time() - t0)
    sh("git checkout -- . && git clean -fdq", cwd=wt)
    # now against /repo
    rc, out = sh("git status --porcelain", cwd="/repo")
    if out.strip():
        print("/repo not clean, refusing", out); return 2
    rc, out = sh(f"git apply {patch}", cwd="/repo")
    if rc != 0:
        print("PATCH DOES NOT APPLY TO /repo", out); return 2
    try:
        res["checks"] = {}
        for p in props:
            t0 = time.time()
            rc, o = sh(f"VERIF_TIER={tier} /verif/.venv/bin/python /verif/checks/{p.lower()}.py", cwd="/verif", timeout=7200)
            viol = [l for l in o.splitlines() if l.startswith("VIOLATION")]
            detail = [l for l in o.splitlines() if l.startswith("  ")][:4]
            res["checks"][p] = {"rc": rc, "violations": len(viol), "first": detail, "tail": o.strip().splitlines()[-1][-300:] if o.strip() else "", "secs": round(time.time() - t0)}
    finally:
        sh("git checkout -- . && git clean -fdq", cwd="/repo")
        # evidence files were overwritten by the patched run; restore committed ones
        sh("git checkout -- evidence 2>/dev/null; rm -rf replays/*/", cwd="/verif")
    print(json.dumps(res, indent=1))
    return 0

if __name__ == "__main__":
    sys.exit(main())
