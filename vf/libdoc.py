"""Documented meaning of the bundled math library (lib/math.facto header comments), written as formulas.
Each entry: name -> (parameter kinds, function(interp, values) -> Sig).  Preconditions ("for all 32-bit arguments
for which the documented formula does not overflow") are appended to interp.preconditions as z3 terms."""
from __future__ import annotations

import z3

from .gen import RefError, Sig

INT_MIN = -(2**31)


def _pre(interp, cond):
    if interp.d.name == "z3":
        interp.preconditions.append(cond)


def _fits32(e64):
    return z3.And(e64 >= -(2**31), e64 <= 2**31 - 1)


def _sx(interp, v):
    return z3.SignExt(32, v) if interp.d.name == "z3" else None


def call_documented(interp, name, vals):
    d = interp.d
    c = d.const

    def val(v):
        return interp.as_val(v)

    def need_int(v):
        if not isinstance(v, int):
            raise RefError("int parameter expected")
        return v

    if name == "abs":
        x = val(vals[0])
        _pre(interp, d.cmp("!=", x, c(INT_MIN)))
        return Sig(None, d.ite(d.cmp("<", x, c(0)), d.neg(x), x))
    if name == "sign":
        x = val(vals[0])
        return Sig(None, d.ite(d.cmp(">", x, c(0)), c(1), d.ite(d.cmp("<", x, c(0)), c(-1), c(0))))
    if name in ("min", "max"):
        a, b = val(vals[0]), val(vals[1])
        le = d.cmp("<=", a, b)
        return Sig(None, d.ite(le, a, b) if name == "min" else d.ite(le, b, a))
    if name == "clamp":
        x, lo, hi = val(vals[0]), need_int(vals[1]), need_int(vals[2])
        if lo > hi:
            raise RefError("clamp with low > high is undocumented")
        return Sig(None, d.ite(d.cmp("<", x, c(lo)), c(lo), d.ite(d.cmp(">", x, c(hi)), c(hi), x)))
    if name == "lerp":
        a, b, t = need_int(vals[0]), need_int(vals[1]), val(vals[2])
        if not (INT_MIN <= b - a <= 2**31 - 1):
            raise RefError("b - a overflows")
        if d.name == "z3":
            prod = z3.BitVecVal(b - a, 64) * z3.SignExt(32, t)
            _pre(interp, _fits32(prod))
            q = z3.If(prod < 0, -((-prod) / 100), prod / 100)  # bvsdiv truncates already; explicit for clarity
            _pre(interp, _fits32(z3.BitVecVal(a, 64) + q))
        return Sig(None, d.add(c(a), d.div(d.mul(c(b - a), t), c(100))))
    if name == "between":
        x, lo, hi = val(vals[0]), need_int(vals[1]), need_int(vals[2])
        return Sig(None, d.b2i(d.and_(d.cmp(">=", x, c(lo)), d.cmp("<=", x, c(hi)))))
    if name in ("get_bit", "set_bit", "clear_bit", "toggle_bit"):
        v, pos = val(vals[0]), need_int(vals[1])
        if not 0 <= pos <= 31:
            raise RefError("bit position outside 0..31")
        mask = c(1 << pos)
        if name == "get_bit":
            return Sig(None, d.band(d.shr(v, c(pos)), c(1)))
        if name == "set_bit":
            return Sig(None, d.bor(v, mask))
        if name == "clear_bit":
            return Sig(None, d.band(v, d.bxor(mask, c(-1))))
        return Sig(None, d.bxor(v, mask))
    if name == "div_floor":
        a, b = val(vals[0]), val(vals[1])
        _pre(interp, d.cmp("!=", b, c(0)))
        _pre(interp, d.not_(d.and_(d.cmp("==", a, c(INT_MIN)), d.cmp("==", b, c(-1)))))
        q, r = d.div(a, b), d.mod(a, b)
        adj = d.and_(d.cmp("!=", r, c(0)), d.cmp("!=", d.b2i(d.cmp("<", a, c(0))), d.b2i(d.cmp("<", b, c(0)))))
        return Sig(None, d.ite(adj, d.sub(q, c(1)), q))
    if name == "mod_positive":
        a, b = val(vals[0]), val(vals[1])
        _pre(interp, d.cmp(">", b, c(0)))  # "always positive": defined for a positive modulus
        r = d.mod(a, b)
        return Sig(None, d.ite(d.cmp("<", r, c(0)), d.add(r, b), r))
    raise RefError(f"no documented definition for {name}")


MATH = {n: True for n in ("abs", "sign", "min", "max", "clamp", "lerp", "between", "get_bit", "set_bit", "clear_bit", "toggle_bit", "div_floor", "mod_positive")}
LIBS = {"math.facto": MATH, "math": MATH}
