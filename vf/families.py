"""Program families (own AST, see vf.gen).  Deterministic: every family is a pure function of its
index; curated corpora written by tools/curate.py are stored under /verif/corpus/*.json.
"""
from __future__ import annotations

import random

ARITH = ["+", "-", "*", "/", "%", "**", "<<", ">>", "AND", "OR", "XOR"]
CMPS = ["==", "!=", "<", "<=", ">", ">="]
BOUNDARY = [0, 1, -1, 2, 3, 7, 31, 32, 100, -100, 255, 32768, 65536, 2147483647, -2147483647, -2147483648]
SMALL = [0, 1, -1, 2, 3, 5, 7, 10, -3, 100]
OUT_SIGS = ["signal-X", "signal-Y", "signal-Z", "signal-V", "signal-U"]

INPUT_POOL = [
    ("a", "signal-A", 11),
    ("b", "signal-B", 13),
    ("c", "iron-plate", 17),
    ("d", "signal-A", 19),  # same type as a: two-colour cases
    ("u", None, 23),  # untyped: compiler-chosen signal
    ("w", "water", 29),
]


def V(n):
    return ["v", n]


def K(n):
    return ["k", n]


class ExprGen:
    def __init__(self, rnd, inputs, names=()):
        self.r = rnd
        self.inputs = list(inputs)
        self.names = list(names)

    def const(self, table=None):
        return K(self.r.choice(table or (SMALL if self.r.random() < 0.7 else BOUNDARY)))

    def leaf_sig(self):
        pool = self.inputs + self.names
        return V(self.r.choice(pool))

    def leaf(self):
        return self.leaf_sig() if self.r.random() < 0.72 else self.const()

    def sig(self, depth):
        """an expression that is signal-valued (contains at least one signal leaf)"""
        r = self.r
        if depth <= 0:
            return self.leaf_sig()
        kind = r.choices(
            ["bin", "cmp", "logic", "not", "neg", "proj", "cond", "leaf"],
            weights=[40, 14, 10, 4, 5, 8, 12, 7],
        )[0]
        if kind == "leaf":
            return self.leaf_sig()
        if kind == "bin":
            op = r.choice(ARITH)
            left_sig = r.random() < 0.8
            l = self.sig(depth - 1) if left_sig else self.const()
            if op == "**":
                rr = K(r.choice([0, 1, 2, 3, 4])) if r.random() < 0.8 or not left_sig else self.sig(depth - 1)
            elif op in ("<<", ">>"):
                rr = K(r.choice([0, 1, 2, 5, 16, 31])) if r.random() < 0.75 or not left_sig else self.sig(depth - 1)
            else:
                rr = self.sig(depth - 1) if (not left_sig or r.random() < 0.5) else self.const()
            if not left_sig and rr[0] == "k":
                rr = self.sig(depth - 1)
            return ["bin", op, l, rr]
        if kind == "cmp":
            return self.cmp(depth)
        if kind == "logic":
            return [r.choice(["and", "or", "and", "or", "andw", "orw"]), self.boolish(depth - 1), self.boolish(depth - 1)]
        if kind == "not":
            return ["not", self.sig(depth - 1)]
        if kind == "neg":
            return ["neg", self.sig(depth - 1)]
        if kind == "proj":
            return ["proj", self.sig(depth - 1), r.choice(["signal-P", "signal-Q", "copper-plate", "signal-A"])]
        if kind == "cond":
            c = self.cmp(depth - 1) if r.random() < 0.7 else [r.choice(["and", "or"]), self.cmp(depth - 1), self.cmp(depth - 1)]
            v = self.leaf() if r.random() < 0.6 else self.sig(depth - 1)
            return ["cond", c, v]
        raise AssertionError

    def cmp(self, depth):
        r = self.r
        op = r.choice(CMPS)
        if r.random() < 0.12:
            return ["cmp", op, self.const(), self.sig(max(depth - 1, 0))]
        l = self.sig(max(depth - 1, 0))
        rr = self.const() if r.random() < 0.55 else self.sig(max(depth - 1, 0))
        return ["cmp", op, l, rr]

    def boolish(self, depth):
        return self.cmp(depth) if self.r.random() < 0.7 else self.sig(depth)


def fam_expr(index, depth=None):
    """C01: one or two outputs over 1..4 inputs; random operator DAGs with named, reused intermediates."""
    rnd = random.Random(f"expr-{index}")
    n_in = rnd.choice([1, 2, 2, 3, 3, 4])
    pool = list(INPUT_POOL)
    rnd.shuffle(pool)
    if index % 3 == 0:  # keep the plain a/b/c case frequent
        pool = INPUT_POOL[:3] + pool
    ins = []
    for p in pool:
        if p[0] not in [x[0] for x in ins]:
            ins.append(p)
        if len(ins) == n_in:
            break
    stmts = [["input", n, t, dflt] for (n, t, dflt) in ins]
    g = ExprGen(rnd, [n for (n, _t, _d) in ins])
    depth = depth if depth is not None else rnd.choice([1, 2, 2, 3, 3])
    n_mid = rnd.choice([0, 0, 1, 1, 2])
    for i in range(n_mid):
        name = f"m{i}"
        stmts.append(["sig", name, g.sig(rnd.choice([1, 2]))])
        g.names.append(name)
        if rnd.random() < 0.5:
            g.names.append(name)  # favour reuse
    n_out = rnd.choice([1, 1, 2])
    for i in range(n_out):
        e = g.sig(depth)
        # (cond : v) | "T" is miscompiled on the pinned tree (copy-count of the projected signal);
        # keep a few of those, project the rest through an addition-free path only when not a cond
        if rnd.random() < (0.1 if e[0] == "cond" else 0.7):
            e = ["proj", e, OUT_SIGS[i]]
        stmts.append(["sig", f"o{i}", e])
    return {"id": f"expr-{index:04d}", "family": "expr", "stmts": stmts}


def fam_expr_fixed():
    """hand-written C01 programs: one representative per construct / documented rule"""
    A, B, C = V("a"), V("b"), V("c")
    ins3 = [["input", "a", "signal-A", 11], ["input", "b", "signal-B", 13], ["input", "c", "iron-plate", 17]]
    progs = []

    def add(name, body, ins=ins3):
        progs.append({"id": f"fixed-{name}", "family": "fixed", "stmts": list(ins) + body})

    for op in ARITH:
        rhs = K(3) if op in ("**", "<<", ">>") else B
        add(f"op-{op}", [["sig", "o", ["proj", ["bin", op, A, rhs], "signal-X"]]])
        add(f"opk-{op}", [["sig", "o", ["bin", op, A, K(5)]]])
        if op not in ("**",):
            add(f"kop-{op}", [["sig", "o", ["bin", op, K(1000), A]]])
    for op in CMPS:
        add(f"cmp-{op}", [["sig", "o", ["proj", ["cmp", op, A, B], "signal-X"]]])
        add(f"cmpk-{op}", [["sig", "o", ["cmp", op, A, K(7)]]])
        add(f"cond-{op}", [["sig", "o", ["cond", ["cmp", op, A, K(7)], C]]])
        add(f"condk-{op}", [["sig", "o", ["proj", ["cond", ["cmp", op, A, B], K(42)], "signal-X"]]])
    add("and", [["sig", "o", ["proj", ["and", ["cmp", ">", A, K(0)], ["cmp", "<", B, K(9)]], "signal-X"]]])
    add("or", [["sig", "o", ["proj", ["or", ["cmp", ">", A, K(0)], ["cmp", "<", B, K(9)]], "signal-X"]]])
    add("andw", [["sig", "o", ["proj", ["andw", A, B], "signal-X"]]])
    add("orw", [["sig", "o", ["proj", ["orw", A, B], "signal-X"]]])
    add("not", [["sig", "o", ["proj", ["not", A], "signal-X"]]])
    add("notcmp", [["sig", "o", ["proj", ["not", ["cmp", "==", A, K(0)]], "signal-X"]]])
    add("neg", [["sig", "o", ["neg", A]]])
    add("negexpr", [["sig", "o", ["proj", ["neg", ["bin", "+", A, B]], "signal-X"]]])
    add("proj", [["sig", "o", ["proj", C, "signal-X"]]])
    add("projsame", [["sig", "o", ["proj", A, "signal-A"]]])
    add("typeof", [["sig", "o", ["proj", ["bin", "+", B, K(1)], ["typeof", "c"]]]])
    add("littypeof", [["sig", "t", ["lit", ["typeof", "c"], K(42)]], ["sig", "o", ["bin", "+", V("t"), C]]])
    add("lit", [["sig", "o", ["bin", "+", ["lit", "signal-A", ["bin", "-", ["bin", "*", K(5), K(2)], K(9)]], A]]])
    add("left-type", [["sig", "o", ["bin", "+", C, A]]])
    add("left-type2", [["sig", "o", ["bin", "-", A, C]]])
    add("prec1", [["sig", "o", ["proj", ["bin", "+", A, ["bin", "*", B, K(3)]], "signal-X"]]])
    add("prec2", [["sig", "o", ["proj", ["bin", "*", ["bin", "+", A, B], K(3)], "signal-X"]]])
    add("prec3", [["sig", "o", ["proj", ["bin", "-", ["bin", "-", A, B], K(3)], "signal-X"]]])
    add("prec4", [["sig", "o", ["proj", ["bin", "-", A, ["bin", "-", B, K(3)]], "signal-X"]]])
    add("prec5", [["sig", "o", ["proj", ["bin", "**", K(2), ["bin", "**", K(3), K(2)]], "signal-X"]], ["sig", "o2", ["bin", "+", V("o"), A]]])
    add("prec6", [["sig", "o", ["proj", ["bin", "OR", A, ["bin", "AND", B, K(12)]], "signal-X"]]])
    add("prec7", [["sig", "o", ["proj", ["bin", "AND", ["bin", "OR", A, B], K(12)], "signal-X"]]])
    add("prec8", [["sig", "o", ["proj", ["bin", "XOR", A, ["bin", "<<", B, K(2)]], "signal-X"]]])
    add("prec9", [["sig", "o", ["proj", ["bin", "<<", ["bin", "+", A, K(1)], K(2)], "signal-X"]]])
    add("prec10", [["sig", "o", ["proj", ["bin", "+", A, ["bin", "<<", K(1), K(2)]], "signal-X"]]])
    add("prec11", [["sig", "o", ["proj", ["cmp", "<", ["bin", "+", A, K(1)], ["bin", "*", B, K(2)]], "signal-X"]]])
    add("prec12", [["sig", "o", ["proj", ["bin", "/", ["bin", "/", A, K(7)], K(2)], "signal-X"]]])
    add("prec13", [["sig", "o", ["proj", ["bin", "/", A, ["bin", "/", K(70), K(2)]], "signal-X"]]])
    add("prec14", [["sig", "o", ["proj", ["bin", "%", ["bin", "*", A, K(3)], K(7)], "signal-X"]]])
    add("prec15", [["sig", "o", ["proj", ["bin", "**", ["neg", A], K(2)], "signal-X"]]])
    add("prec16", [["sig", "o", ["proj", ["neg", ["bin", "**", A, K(2)]], "signal-X"]]])
    add("reuse", [["sig", "m", ["bin", "+", A, B]], ["sig", "o", ["proj", ["bin", "*", V("m"), V("m")], "signal-X"]]])
    add("reuse2", [["sig", "m", ["bin", "*", A, K(3)]], ["sig", "o", ["proj", ["bin", "+", ["bin", "+", V("m"), V("m")], V("m")], "signal-X"]]])
    add("same-type", [["sig", "o", ["bin", "-", A, V("d")]]], ins=ins3 + [["input", "d", "signal-A", 19]])
    add("same-type2", [["sig", "o", ["proj", ["bin", "*", ["bin", "+", A, V("d")], ["bin", "-", A, V("d")]], "signal-X"]]], ins=ins3 + [["input", "d", "signal-A", 19]])
    add("sel-pattern", [["sig", "o", ["proj", ["bin", "+", ["cond", ["cmp", ">", A, K(0)], B], ["cond", ["cmp", "<=", A, K(0)], C]], "signal-X"]]])
    add("clamp", [["sig", "o", ["proj", ["bin", "+", ["cond", ["cmp", ">", A, K(100)], K(100)], ["cond", ["cmp", "<=", A, K(100)], A]], "signal-X"]]])
    add("int-var", [["int", "k", ["bin", "+", K(4), K(3)]], ["sig", "o", ["proj", ["bin", "*", A, V("k")], "signal-X"]]])
    add("untyped", [["sig", "o", ["bin", "+", V("u"), K(1)]]], ins=[["input", "u", None, 23]])
    add("untyped2", [["sig", "o", ["proj", ["bin", "*", V("u"), A], "signal-X"]]], ins=ins3 + [["input", "u", None, 23]])
    add("multi-out", [["sig", "o", ["proj", ["bin", "+", A, B], "signal-X"]], ["sig", "p", ["proj", ["bin", "-", A, B], "signal-Y"]], ["sig", "q", ["proj", ["bin", "*", A, B], "signal-Z"]]])
    add("cond-compound", [["sig", "o", ["cond", ["and", ["cmp", ">", A, K(3)], ["cmp", "<", B, K(9)]], C]]])
    add("cond-or", [["sig", "o", ["cond", ["or", ["cmp", ">", A, K(3)], ["cmp", "<", B, K(9)]], C]]])
    add("cond-mixed", [["sig", "o", ["proj", ["cond", ["or", ["and", ["cmp", ">", A, K(3)], ["cmp", "<", B, K(9)]], ["cmp", "==", C, K(1)]], A], "signal-X"]]])
    add("cond-ident", [["sig", "f", ["cmp", ">", A, K(3)]], ["sig", "o", ["proj", ["cond", ["cmp", ">", V("f"), K(0)], B], "signal-X"]]])
    add("int-left-cmp", [["sig", "o", ["proj", ["cmp", "!=", K(-2), A], "signal-X"]]])
    add("int-left-lt", [["sig", "o", ["proj", ["cmp", "<", K(5), A], "signal-X"]]])
    add("divmul", [["sig", "o", ["proj", ["bin", "*", ["bin", "/", A, B], B], "signal-X"]]])
    add("alias", [["sig", "o", A]])
    add("const-out", [["sig", "o", ["lit", "signal-X", K(42)]]])
    return progs


def corpus_c01(tier):
    n = 60 if tier == "quick" else 400
    return fam_expr_fixed() + [fam_expr(i) for i in range(n)]
