"""Program families (own AST, see vf.gen).  Deterministic: every family is a pure function of its
index; curated corpora written by tools/curate.py are stored under /verif/corpus/*.json.
"""
from __future__ import annotations

import random

ARITH = ["+", "-", "*", "/", "%", "**", "<<", ">>", "AND", "OR", "XOR"]
CMPS = ["==", "!=", "<", "<=", ">", ">="]
BOUNDARY = [0, 1, -1, 2, 3, 7, 31, 32, 100, -100, 255, 32768, 65536, 2147483647, -2147483647, -2147483648]
SMALL = [0, 1, -1, 2, 3, 5, 7, 10, -3, 100]
OUT_SIGS = ["signal-X", "signal-Y", "signal-Z", "signal-V", "signal-U"]

# defaults are sentinels (distinct primes that occur nowhere else): they identify the input's constant
# combinator independently of its label
INPUT_POOL = [
    ("a", "signal-A", 10007),
    ("b", "signal-B", 10009),
    ("c", "iron-plate", 10037),
    ("d", "signal-A", 10039),  # same type as a: two-colour cases
    ("u", None, 10061),  # untyped: compiler-chosen signal
    ("w", "water", 10067),
]


def V(n):
    return ["v", n]


def K(n):
    return ["k", n]


class ExprGen:
    def __init__(self, rnd, inputs, names=()):
        self.r = rnd
        self.inputs = list(inputs)
        self.names = list(names)

    def const(self, table=None):
        return K(self.r.choice(table or (SMALL if self.r.random() < 0.7 else BOUNDARY)))

    def leaf_sig(self):
        pool = self.inputs + self.names
        return V(self.r.choice(pool))

    def leaf(self):
        return self.leaf_sig() if self.r.random() < 0.72 else self.const()

    def sig(self, depth):
        """an expression that is signal-valued (contains at least one signal leaf)"""
        r = self.r
        if depth <= 0:
            return self.leaf_sig()
        kind = r.choices(
            ["bin", "cmp", "logic", "not", "neg", "proj", "cond", "leaf"],
            weights=[40, 14, 10, 4, 5, 8, 12, 7],
        )[0]
        if kind == "leaf":
            return self.leaf_sig()
        if kind == "bin":
            op = r.choice(ARITH)
            left_sig = r.random() < 0.8
            l = self.sig(depth - 1) if left_sig else self.const()
            if op == "**":
                rr = K(r.choice([0, 1, 2, 3, 4])) if r.random() < 0.8 or not left_sig else self.sig(depth - 1)
            elif op in ("<<", ">>"):
                rr = K(r.choice([0, 1, 2, 5, 16, 31])) if r.random() < 0.75 or not left_sig else self.sig(depth - 1)
            else:
                rr = self.sig(depth - 1) if (not left_sig or r.random() < 0.5) else self.const()
            if not left_sig and rr[0] == "k":
                rr = self.sig(depth - 1)
            return ["bin", op, l, rr]
        if kind == "cmp":
            return self.cmp(depth)
        if kind == "logic":
            return [r.choice(["and", "or", "and", "or", "andw", "orw"]), self.boolish(depth - 1), self.boolish(depth - 1)]
        if kind == "not":
            return ["not", self.sig(depth - 1)]
        if kind == "neg":
            return ["neg", self.sig(depth - 1)]
        if kind == "proj":
            return ["proj", self.sig(depth - 1), r.choice(["signal-P", "signal-Q", "copper-plate", "signal-A"])]
        if kind == "cond":
            c = self.cmp(depth - 1) if r.random() < 0.7 else [r.choice(["and", "or"]), self.cmp(depth - 1), self.cmp(depth - 1)]
            v = self.leaf() if r.random() < 0.6 else self.sig(depth - 1)
            return ["cond", c, v]
        raise AssertionError

    def cmp(self, depth):
        r = self.r
        op = r.choice(CMPS)
        if r.random() < 0.12:
            return ["cmp", op, self.const(), self.sig(max(depth - 1, 0))]
        l = self.sig(max(depth - 1, 0))
        rr = self.const() if r.random() < 0.55 else self.sig(max(depth - 1, 0))
        return ["cmp", op, l, rr]

    def boolish(self, depth):
        return self.cmp(depth) if self.r.random() < 0.7 else self.sig(depth)


def fam_expr(index, depth=None):
    """C01: one or two outputs over 1..4 inputs; random operator DAGs with named, reused intermediates."""
    rnd = random.Random(f"expr-{index}")
    n_in = rnd.choice([1, 2, 2, 3, 3, 4])
    pool = list(INPUT_POOL)
    rnd.shuffle(pool)
    if index % 3 == 0:  # keep the plain a/b/c case frequent
        pool = INPUT_POOL[:3] + pool
    ins = []
    for p in pool:
        if p[0] not in [x[0] for x in ins]:
            ins.append(p)
        if len(ins) == n_in:
            break
    stmts = [["input", n, t, dflt] for (n, t, dflt) in ins]
    g = ExprGen(rnd, [n for (n, _t, _d) in ins])
    depth = depth if depth is not None else rnd.choice([1, 2, 2, 3, 3])
    n_mid = rnd.choice([0, 0, 1, 1, 2])
    for i in range(n_mid):
        name = f"m{i}"
        stmts.append(["sig", name, g.sig(rnd.choice([1, 2]))])
        g.names.append(name)
        if rnd.random() < 0.5:
            g.names.append(name)  # favour reuse
    n_out = rnd.choice([1, 1, 2])
    prev = None
    for i in range(n_out):
        e = g.sig(depth)
        if prev is not None and rnd.random() < 0.4:
            # reuse the previous output's computation on another channel
            e = ["bin", rnd.choice(["+", "-", "*"]), ["proj", prev, "signal-Q"], g.leaf()]
        prev = e
        # (cond : v) | "T" is miscompiled on the pinned tree (copy-count of the projected signal);
        # keep a few of those, project the rest through an addition-free path only when not a cond
        if rnd.random() < (0.1 if e[0] == "cond" else 0.7):
            e = ["proj", e, OUT_SIGS[i]]
        stmts.append(["sig", f"o{i}", e])
    return {"id": f"expr-{index:04d}", "family": "expr", "stmts": stmts}


def fam_expr_fixed():
    """hand-written C01 programs: one representative per construct / documented rule"""
    A, B, C = V("a"), V("b"), V("c")
    ins3 = [["input", "a", "signal-A", 10007], ["input", "b", "signal-B", 10009], ["input", "c", "iron-plate", 10037]]
    progs = []

    def add(name, body, ins=ins3):
        progs.append({"id": f"fixed-{name}", "family": "fixed", "stmts": list(ins) + body})

    for op in ARITH:
        rhs = K(3) if op in ("**", "<<", ">>") else B
        add(f"op-{op}", [["sig", "o", ["proj", ["bin", op, A, rhs], "signal-X"]]])
        add(f"opk-{op}", [["sig", "o", ["bin", op, A, K(5)]]])
        if op not in ("**",):
            add(f"kop-{op}", [["sig", "o", ["bin", op, K(1000), A]]])
    for op in CMPS:
        add(f"cmp-{op}", [["sig", "o", ["proj", ["cmp", op, A, B], "signal-X"]]])
        add(f"cmpk-{op}", [["sig", "o", ["cmp", op, A, K(7)]]])
        add(f"cond-{op}", [["sig", "o", ["cond", ["cmp", op, A, K(7)], C]]])
        add(f"condk-{op}", [["sig", "o", ["proj", ["cond", ["cmp", op, A, B], K(42)], "signal-X"]]])
    for kv in (0, -1, 1, 7):
        add(f"condconst-{kv}", [["sig", "o", ["proj", ["bin", "+", ["cond", ["cmp", ">", A, K(3)], K(kv)], B], "signal-X"]]])
        add(f"condconst-intvar-{kv}", [["int", "k", K(kv)], ["sig", "o", ["proj", ["bin", "+", ["cond", ["cmp", ">", A, K(3)], V("k")], B], "signal-X"]]])
    add("and", [["sig", "o", ["proj", ["and", ["cmp", ">", A, K(0)], ["cmp", "<", B, K(9)]], "signal-X"]]])
    add("or", [["sig", "o", ["proj", ["or", ["cmp", ">", A, K(0)], ["cmp", "<", B, K(9)]], "signal-X"]]])
    add("andw", [["sig", "o", ["proj", ["andw", A, B], "signal-X"]]])
    add("orw", [["sig", "o", ["proj", ["orw", A, B], "signal-X"]]])
    add("not", [["sig", "o", ["proj", ["not", A], "signal-X"]]])
    add("notcmp", [["sig", "o", ["proj", ["not", ["cmp", "==", A, K(0)]], "signal-X"]]])
    for op in CMPS:  # `!` directly on every comparison form (scalar-constant, scalar-scalar, constant on the left)
        add(f"notcmpk-{op}", [["sig", "o", ["proj", ["not", ["cmp", op, A, K(5)]], "signal-X"]]])
        add(f"notcmps-{op}", [["sig", "o", ["proj", ["not", ["cmp", op, A, B]], "signal-X"]]])
        add(f"notcmp-untyped-{op}", [["sig", "n", ["not", ["cmp", op, C, K(5)]]], ["sig", "o", ["proj", ["bin", "*", V("n"), K(10)], "signal-X"]]])
    add("notcmp-kleft", [["sig", "o", ["proj", ["not", ["cmp", "<", K(5), A]], "signal-X"]]])
    add("notnotcmp", [["sig", "o", ["proj", ["not", ["not", ["cmp", ">", A, K(5)]]], "signal-X"]]])
    add("neg", [["sig", "o", ["neg", A]]])
    add("negexpr", [["sig", "o", ["proj", ["neg", ["bin", "+", A, B]], "signal-X"]]])
    add("proj", [["sig", "o", ["proj", C, "signal-X"]]])
    add("projsame", [["sig", "o", ["proj", A, "signal-A"]]])
    add("typeof", [["sig", "o", ["proj", ["bin", "+", B, K(1)], ["typeof", "c"]]]])
    add("littypeof", [["sig", "t", ["lit", ["typeof", "c"], K(42)]], ["sig", "o", ["bin", "+", V("t"), C]]])
    add("lit", [["sig", "o", ["bin", "+", ["lit", "signal-A", ["bin", "-", ["bin", "*", K(5), K(2)], K(9)]], A]]])
    add("left-type", [["sig", "o", ["bin", "+", C, A]]])
    add("left-type2", [["sig", "o", ["bin", "-", A, C]]])
    add("prec1", [["sig", "o", ["proj", ["bin", "+", A, ["bin", "*", B, K(3)]], "signal-X"]]])
    add("prec2", [["sig", "o", ["proj", ["bin", "*", ["bin", "+", A, B], K(3)], "signal-X"]]])
    add("prec3", [["sig", "o", ["proj", ["bin", "-", ["bin", "-", A, B], K(3)], "signal-X"]]])
    add("prec4", [["sig", "o", ["proj", ["bin", "-", A, ["bin", "-", B, K(3)]], "signal-X"]]])
    add("prec5", [["sig", "o", ["proj", ["bin", "**", K(2), ["bin", "**", K(3), K(2)]], "signal-X"]], ["sig", "o2", ["bin", "+", V("o"), A]]])
    add("prec6", [["sig", "o", ["proj", ["bin", "OR", A, ["bin", "AND", B, K(12)]], "signal-X"]]])
    add("prec7", [["sig", "o", ["proj", ["bin", "AND", ["bin", "OR", A, B], K(12)], "signal-X"]]])
    add("prec8", [["sig", "o", ["proj", ["bin", "XOR", A, ["bin", "<<", B, K(2)]], "signal-X"]]])
    add("prec9", [["sig", "o", ["proj", ["bin", "<<", ["bin", "+", A, K(1)], K(2)], "signal-X"]]])
    add("prec10", [["sig", "o", ["proj", ["bin", "+", A, ["bin", "<<", K(1), K(2)]], "signal-X"]]])
    add("prec11", [["sig", "o", ["proj", ["cmp", "<", ["bin", "+", A, K(1)], ["bin", "*", B, K(2)]], "signal-X"]]])
    add("prec12", [["sig", "o", ["proj", ["bin", "/", ["bin", "/", A, K(7)], K(2)], "signal-X"]]])
    add("prec13", [["sig", "o", ["proj", ["bin", "/", A, ["bin", "/", K(70), K(2)]], "signal-X"]]])
    add("prec14", [["sig", "o", ["proj", ["bin", "%", ["bin", "*", A, K(3)], K(7)], "signal-X"]]])
    add("prec15", [["sig", "o", ["proj", ["bin", "**", ["neg", A], K(2)], "signal-X"]]])
    add("prec16", [["sig", "o", ["proj", ["neg", ["bin", "**", A, K(2)]], "signal-X"]]])
    add("reuse", [["sig", "m", ["bin", "+", A, B]], ["sig", "o", ["proj", ["bin", "*", V("m"), V("m")], "signal-X"]]])
    add("reuse2", [["sig", "m", ["bin", "*", A, K(3)]], ["sig", "o", ["proj", ["bin", "+", ["bin", "+", V("m"), V("m")], V("m")], "signal-X"]]])
    add("same-type", [["sig", "o", ["bin", "-", A, V("d")]]], ins=ins3 + [["input", "d", "signal-A", 10039]])
    add("same-type2", [["sig", "o", ["proj", ["bin", "*", ["bin", "+", A, V("d")], ["bin", "-", A, V("d")]], "signal-X"]]], ins=ins3 + [["input", "d", "signal-A", 10039]])
    add("sel-pattern", [["sig", "o", ["proj", ["bin", "+", ["cond", ["cmp", ">", A, K(0)], B], ["cond", ["cmp", "<=", A, K(0)], C]], "signal-X"]]])
    add("clamp", [["sig", "o", ["proj", ["bin", "+", ["cond", ["cmp", ">", A, K(100)], K(100)], ["cond", ["cmp", "<=", A, K(100)], A]], "signal-X"]]])
    add("int-var", [["int", "k", ["bin", "+", K(4), K(3)]], ["sig", "o", ["proj", ["bin", "*", A, V("k")], "signal-X"]]])
    add("untyped", [["sig", "o", ["bin", "+", V("u"), K(1)]]], ins=[["input", "u", None, 10061]])
    add("untyped2", [["sig", "o", ["proj", ["bin", "*", V("u"), A], "signal-X"]]], ins=ins3 + [["input", "u", None, 10061]])
    add("multi-out", [["sig", "o", ["proj", ["bin", "+", A, B], "signal-X"]], ["sig", "p", ["proj", ["bin", "-", A, B], "signal-Y"]], ["sig", "q", ["proj", ["bin", "*", A, B], "signal-Z"]]])
    add("cond-compound", [["sig", "o", ["cond", ["and", ["cmp", ">", A, K(3)], ["cmp", "<", B, K(9)]], C]]])
    add("cond-or", [["sig", "o", ["cond", ["or", ["cmp", ">", A, K(3)], ["cmp", "<", B, K(9)]], C]]])
    add("cond-mixed", [["sig", "o", ["proj", ["cond", ["or", ["and", ["cmp", ">", A, K(3)], ["cmp", "<", B, K(9)]], ["cmp", "==", C, K(1)]], A], "signal-X"]]])
    add("cond-ident", [["sig", "f", ["cmp", ">", A, K(3)]], ["sig", "o", ["proj", ["cond", ["cmp", ">", V("f"), K(0)], B], "signal-X"]]])
    add("int-left-cmp", [["sig", "o", ["proj", ["cmp", "!=", K(-2), A], "signal-X"]]])
    add("int-left-lt", [["sig", "o", ["proj", ["cmp", "<", K(5), A], "signal-X"]]])
    add("divmul", [["sig", "o", ["proj", ["bin", "*", ["bin", "/", A, B], B], "signal-X"]]])
    # boolean algebra: every pairing of operand shapes under && / || (0/1-valued and not)
    shapes = {
        "cmp": ["cmp", ">", A, K(0)],
        "cmp2": ["cmp", "<", B, K(9)],
        "sum": ["bin", "+", ["cmp", ">", A, K(0)], ["cmp", ">", B, K(0)]],
        "sum1": ["bin", "+", ["cmp", ">", A, K(0)], K(1)],
        "diff": ["bin", "-", ["cmp", ">", A, K(0)], ["cmp", ">", B, K(0)]],
        "prod": ["bin", "*", ["cmp", ">", A, K(0)], ["cmp", ">", B, K(0)]],
        "plus0": ["bin", "+", ["cmp", ">", A, K(0)], K(0)],
        "not": ["not", B],
        "sig": B,
        "neg": ["neg", ["cmp", ">", B, K(0)]],
        "nested": ["or", ["cmp", ">", A, K(5)], ["cmp", "<", B, K(0)]],
        "arith": ["bin", "-", A, K(3)],
        "int5": K(5),
        "int0": K(0),
        "intneg": K(-2),
    }
    for ln, le in shapes.items():
        for rn, re_ in (("cmpc", ["cmp", ">", C, K(0)]), ("sum", shapes["sum"]), ("sig", C), ("not", ["not", C]), ("int2", K(2)), ("int0", K(0))):
            if le[0] == "k" and re_[0] == "k":
                continue
            for op in ("and", "or"):
                add(f"bool-{op}-{ln}-{rn}", [["sig", "o", ["proj", [op, le, re_], "signal-X"]]])
    for ln, le in shapes.items():
        if le[0] == "k":
            add(f"bool-intvar-{ln}", [["int", "k", le], ["sig", "o", ["proj", ["and", A, V("k")], "signal-X"]], ["sig", "o2", ["proj", ["or", V("k"), B], "signal-Y"]]])
            continue
        add(f"bool-not-{ln}", [["sig", "o", ["proj", ["not", le], "signal-X"]]])
        add(f"bool-named-{ln}", [["sig", "m", le], ["sig", "o", ["proj", ["and", V("m"), ["cmp", ">", C, K(0)]], "signal-X"]]])
    # the same computation wanted on different channels
    add("dup-chan-1", [["sig", "p", ["bin", "*", A, B]], ["sig", "q", ["bin", "-", ["proj", ["bin", "*", A, B], "signal-D"], K(1)]]])
    add("dup-chan-2", [["sig", "p", ["proj", A, "signal-C"]], ["sig", "q", ["proj", A, "signal-D"]]])
    add("dup-chan-3", [["sig", "p", ["proj", A, "signal-C"]], ["sig", "q", ["bin", "+", A, K(0)]]])
    add("dup-chan-4", [["sig", "p", ["bin", "/", ["bin", "*", A, B], K(2)]], ["sig", "q", ["proj", ["bin", "*", A, B], "signal-D"]], ["sig", "r", ["proj", ["bin", "*", A, B], "signal-E"]]])
    add("dup-chan-5", [["sig", "p", ["proj", ["bin", "+", A, B], "signal-X"]], ["sig", "q", ["proj", ["bin", "+", ["proj", ["bin", "+", A, B], "signal-Y"], C], "signal-Z"]]])
    add("dup-cmp-chan", [["sig", "p", ["proj", ["cmp", ">", A, B], "signal-X"]], ["sig", "q", ["proj", ["bin", "*", ["proj", ["cmp", ">", A, B], "signal-Y"], K(5)], "signal-Z"]]])
    # diamonds: t feeds u and v, u (projected onto a name sorting before / after t's) feeds v; one and several per program
    for nm, (xs, us) in {"ba": ("b", "signal-A"), "ab": ("a", "signal-B"), "ax": ("a", "signal-X"), "item": ("c", "signal-A")}.items():
        dia = lambda k, sfx="": [["sig", f"t{sfx}", ["bin", "*", V(xs), K(k)]], ["sig", f"u{sfx}", ["proj", ["bin", "+", V(f"t{sfx}"), K(1)], us]], ["sig", f"v{sfx}", ["bin", "+", V(f"u{sfx}"), V(f"t{sfx}")]]]  # noqa: E731
        add(f"diamond-{nm}", dia(3))
        add(f"diamond-{nm}-x4", dia(2, "1") + dia(3, "2") + dia(5, "3") + dia(7, "4"))
        add(f"diamond-{nm}-sub", [["sig", "t", ["bin", "*", V(xs), K(3)]], ["sig", "u", ["proj", ["bin", "-", V("t"), K(1)], us]], ["sig", "v", ["proj", ["bin", "-", V("u"), V("t")], "signal-Y"]]])
    add("alias", [["sig", "o", A]])
    add("const-out", [["sig", "o", ["lit", "signal-X", K(42)]]])
    return progs


def corpus_c01(tier):
    n = 60 if tier == "quick" else 400
    return fam_expr_fixed() + [fam_expr(i) for i in range(n)]


# ======================================================================================
#  C02 bundles
# ======================================================================================

B_INPUTS = [("a", "signal-A", 10007), ("c", "iron-plate", 10037), ("p", "copper-plate", 10069), ("s", "signal-S", 10079), ("t", "signal-A", 10091), ("w", "water", 10067)]
B_CONST_MEMBERS = [("signal-B", 5), ("coal", -3), ("signal-C", 0), ("steel-plate", 100), ("signal-D", -2147483648), ("wood", 7)]


def _bundle_literal(rnd, ins, avoid=()):
    """returns (expr, member signal set)"""
    members, elems = set(avoid), []
    style = rnd.choice(["const", "inputs", "mixed", "mixed"])
    n = rnd.choice([1, 2, 2, 3])
    for _ in range(n):
        if style == "const" or (style == "mixed" and rnd.random() < 0.5):
            cands = [m for m in B_CONST_MEMBERS if m[0] not in members]
            if not cands:
                continue
            sig, val = rnd.choice(cands)
            elems.append(["lit", sig, K(val)])
            members.add(sig)
        else:
            cands = [(n_, t) for (n_, t, _d) in ins if t not in members and n_ not in ("s", "t")]
            if not cands:
                continue
            n_, t = rnd.choice(cands)
            elems.append(V(n_))
            members.add(t)
    if not elems:
        elems.append(["lit", "signal-B", K(5)])
        members.add("signal-B")
    return ["bundle", elems], members - set(avoid)


def fam_bundle(index):
    rnd = random.Random(f"bundle-{index}")
    ins = [B_INPUTS[0], B_INPUTS[1]] + rnd.sample(B_INPUTS[2:], rnd.choice([1, 2, 3]))
    names = [n for (n, _t, _d) in ins]
    stmts = [["input", n, t, d] for (n, t, d) in ins]
    lit, members = _bundle_literal(rnd, ins)
    stmts.append(["bun", "b0", lit])
    cur, k = "b0", 0
    scalars = [n for n in names if n in ("s", "t", "w")] or ["a"]

    def scalar():
        return V(rnd.choice(scalars)) if rnd.random() < 0.5 else K(rnd.choice(SMALL + [-2147483648, 2147483647]))

    steps = rnd.choice([1, 1, 2, 2, 3])
    for _ in range(steps):
        kind = rnd.choice(["arith", "arith", "filter", "filterk", "gate", "nest"])
        k += 1
        name = f"b{k}"
        if kind == "arith":
            op = rnd.choice(ARITH)
            rhs = scalar()
            if op == "**":
                rhs = K(rnd.choice([0, 1, 2, 3]))
            if op in ("<<", ">>") and rhs[0] == "k":
                rhs = K(rnd.choice([0, 1, 4, 31]))
            e = ["bin", op, V(cur), rhs]
            if rnd.random() < 0.35:  # a second, anonymous step inside the same expression
                op2 = rnd.choice([op, op, "+", "*", "-"])
                e = ["bin", op2, e, K(rnd.choice([1, 2, 3, -2, 5]))]
            stmts.append(["bun", name, e])
        elif kind == "filter":
            stmts.append(["bun", name, ["cond", ["cmp", rnd.choice(CMPS), V(cur), scalar()], V(cur)]])
        elif kind == "filterk":
            stmts.append(["bun", name, ["cond", ["cmp", rnd.choice(CMPS), V(cur), scalar()], K(rnd.choice([1, 1, 5, -1]))]])
        elif kind == "gate":
            stmts.append(["bun", name, ["cond", ["cmp", rnd.choice(CMPS), V(rnd.choice(scalars)), K(rnd.choice(SMALL))], V(cur)]])
        else:
            lit2, m2 = _bundle_literal(rnd, ins, avoid=members)
            if not m2:
                k -= 1
                continue
            members |= m2
            stmts.append(["bun", name, ["bundle", [V(cur)] + lit2[1]]])
        cur = name
    tail = rnd.choice(["none", "any", "all", "sel", "anyall"])
    if tail in ("any", "anyall"):
        stmts.append(["sig", "q_any", ["cmp", rnd.choice(CMPS), ["any", V(cur)], K(rnd.choice(SMALL))]])
    if tail in ("all", "anyall"):
        stmts.append(["sig", "q_all", ["cmp", rnd.choice(CMPS), ["all", V(cur)], K(rnd.choice(SMALL))]])
    if tail == "sel":
        stmts.append(["sig", "q_sel", ["sel", V(cur), rnd.choice(sorted(members))]])
        stmts.append(["sig", "q_use", ["proj", ["bin", "+", V("q_sel"), K(1)], "signal-X"]])
    if tail != "none" and rnd.random() < 0.5:
        stmts.append(["bun", "keep", ["bin", "+", V(cur), K(0)]])
    return {"id": f"bundle-{index:04d}", "family": "bundle", "stmts": stmts}


def fam_bundle_fixed():
    ins = [["input", n, t, d] for (n, t, d) in B_INPUTS[:5]]
    L3 = ["bundle", [["lit", "signal-B", K(5)], ["lit", "coal", K(-3)], ["lit", "steel-plate", K(100)]]]
    LIN = ["bundle", [V("a"), V("c"), V("p")]]
    LMIX = ["bundle", [V("a"), ["lit", "coal", K(4)]]]
    progs = []

    def add(name, body):
        progs.append({"id": f"bfixed-{name}", "family": "fixed", "stmts": list(ins) + body})

    for nm, lit in (("const", L3), ("in", LIN), ("mix", LMIX)):
        add(f"lit-{nm}", [["bun", "b", lit]])
        for op in ARITH:
            rhs = K(3) if op in ("**", "<<", ">>") else K(7)
            add(f"{nm}-opk-{op}", [["bun", "b", lit], ["bun", "r", ["bin", op, V("b"), rhs]]])
        for op in ("+", "*", "-", "/", "AND"):
            add(f"{nm}-ops-{op}", [["bun", "b", lit], ["bun", "r", ["bin", op, V("b"), V("s")]]])
            add(f"{nm}-opt-{op}", [["bun", "b", lit], ["bun", "r", ["bin", op, V("b"), V("t")]]])  # scalar's signal is also a member
        for op in CMPS:
            add(f"{nm}-filter-{op}", [["bun", "b", lit], ["bun", "r", ["cond", ["cmp", op, V("b"), K(4)], V("b")]]])
            add(f"{nm}-filterk-{op}", [["bun", "b", lit], ["bun", "r", ["cond", ["cmp", op, V("b"), K(4)], K(1)]]])
            add(f"{nm}-filters-{op}", [["bun", "b", lit], ["bun", "r", ["cond", ["cmp", op, V("b"), V("s")], V("b")]]])
            add(f"{nm}-gate-{op}", [["bun", "b", lit], ["bun", "r", ["cond", ["cmp", op, V("s"), K(4)], V("b")]]])
            add(f"{nm}-any-{op}", [["bun", "b", lit], ["sig", "r", ["cmp", op, ["any", V("b")], K(4)]]])
            add(f"{nm}-all-{op}", [["bun", "b", lit], ["sig", "r", ["cmp", op, ["all", V("b")], K(4)]]])
            add(f"{nm}-notany-{op}", [["bun", "b", lit], ["sig", "r", ["not", ["cmp", op, ["any", V("b")], K(4)]]]])
            add(f"{nm}-notall-{op}", [["bun", "b", lit], ["sig", "r", ["not", ["cmp", op, ["all", V("b")], K(4)]]]])
        for kn, kv in (("k0", K(0)), ("kneg", K(-1)), ("k5", K(5)), ("kfold0", ["bin", "-", K(2), K(2)]), ("kmin", K(-2147483648))):
            add(f"{nm}-filterconst-{kn}", [["bun", "b", lit], ["bun", "r", ["cond", ["cmp", ">", V("b"), K(0)], kv]]])
            add(f"{nm}-filterconst-ne-{kn}", [["bun", "b", lit], ["bun", "r", ["cond", ["cmp", "!=", V("b"), K(4)], kv]], ["bun", "r2", ["bin", "+", V("r"), K(1)]]])
        add(f"{nm}-sel", [["bun", "b", lit], ["sig", "r", ["proj", ["bin", "*", ["sel", V("b"), "coal" if nm != "in" else "iron-plate"], K(2)], "signal-X"]]])
    # every ordered pair of bundle operations, once through a named intermediate and once as ONE nested expression
    steps = {
        "add2": lambda e: ["bin", "+", e, K(2)],
        "add3": lambda e: ["bin", "+", e, K(3)],
        "subneg": lambda e: ["bin", "-", e, K(-4)],
        "mul2": lambda e: ["bin", "*", e, K(2)],
        "mul3": lambda e: ["bin", "*", e, K(3)],
        "adds": lambda e: ["bin", "+", e, V("s")],
        "div2": lambda e: ["bin", "/", e, K(2)],
        "filter": lambda e: ["cond", ["cmp", ">", e, K(4)], e],
        "filterk": lambda e: ["cond", ["cmp", "!=", e, K(4)], K(1)],
        "gate-s": lambda e: ["cond", ["cmp", ">", V("s"), K(2)], e],
        "gate-t": lambda e: ["cond", ["cmp", ">", V("t"), K(0)], e],
    }
    for n1, f1 in steps.items():
        for n2, f2 in steps.items():
            if n1.startswith("filter") and n2.startswith("filter"):
                continue
            add(f"chain-named-{n1}-{n2}", [["bun", "b", LIN], ["bun", "g", f1(V("b"))], ["bun", "r", f2(V("g"))]])
            add(f"chain-cnamed-{n1}-{n2}", [["bun", "b", L3], ["bun", "g", f1(V("b"))], ["bun", "r", f2(V("g"))]])
            if not n2.startswith("filter"):
                add(f"chain-nested-{n1}-{n2}", [["bun", "b", LIN], ["bun", "r", f2(f1(V("b")))]])
    # the same bundle expression computed twice, the second copy consumed through several different VIEWS
    L3i = ["bundle", [["lit", "iron-plate", K(100)], ["lit", "copper-plate", K(80)], ["lit", "coal", K(-5)]]]
    for dn, mk in (("mul-s", lambda: ["bin", "*", V("b"), V("s")]), ("add-k", lambda: ["bin", "+", V("b"), K(3)]), ("filter", lambda: ["cond", ["cmp", ">", V("b"), K(0)], V("b")])):
        for bn, blit in (("const", L3i), ("in", LIN)):
            head = [["bun", "b", blit], ["bun", "c1", mk()], ["bun", "d1", mk()]]
            add(f"dupviews-{dn}-{bn}-sel-sel", head + [["sig", "vp", ["proj", ["bin", "+", ["sel", V("d1"), "iron-plate"], K(1)], "signal-X"]], ["sig", "vq", ["proj", ["bin", "+", ["sel", V("d1"), "coal" if bn == "const" else "copper-plate"], K(1)], "signal-Y"]], ["bun", "keep", ["bin", "+", V("c1"), K(0)]]])
            add(f"dupviews-{dn}-{bn}-any-all", head + [["sig", "vp", ["proj", ["cmp", ">", ["any", V("d1")], K(50)], "signal-X"]], ["sig", "vq", ["proj", ["cmp", ">", ["all", V("d1")], K(50)], "signal-Y"]], ["bun", "keep", ["bin", "+", V("c1"), K(0)]]])
            add(f"dupviews-{dn}-{bn}-sel-each", head + [["sig", "vp", ["proj", ["bin", "*", ["sel", V("d1"), "iron-plate"], K(2)], "signal-X"]], ["bun", "vq", ["bin", "*", V("d1"), K(2)]], ["bun", "keep", ["bin", "+", V("c1"), K(0)]]])
            add(f"dupviews-{dn}-{bn}-first-copy-views", head + [["sig", "vp", ["proj", ["bin", "+", ["sel", V("c1"), "iron-plate"], K(1)], "signal-X"]], ["sig", "vq", ["proj", ["bin", "+", ["sel", V("d1"), "coal" if bn == "const" else "copper-plate"], K(1)], "signal-Y"]]])
    add("chain3-add", [["bun", "b", LIN], ["bun", "r", ["bin", "+", ["bin", "+", ["bin", "+", V("b"), K(1)], K(2)], K(3)]]])
    add("chain3-mul", [["bun", "b", LIN], ["bun", "r", ["bin", "*", ["bin", "*", ["bin", "*", V("b"), K(2)], K(3)], K(5)]]])
    add("chain3-gates", [["bun", "b", LIN], ["bun", "g", ["cond", ["cmp", ">", V("s"), K(2)], V("b")]], ["bun", "h", ["cond", ["cmp", ">", V("t"), K(0)], V("g")]], ["bun", "i", ["cond", ["cmp", "<", V("s"), K(100)], V("h")]]])
    # the scalar operand IS one of the bundle's own members (same source), also via a computed member
    for op in ("+", "*", "-", "/", "AND"):
        add(f"in-opmember-{op}", [["bun", "b", LIN], ["bun", "r", ["bin", op, V("b"), V("a")]]])
        add(f"mix-opmember-{op}", [["bun", "b", LMIX], ["bun", "r", ["bin", op, V("b"), V("a")]]])
    add("opmember-computed", [["sig", "m", ["bin", "*", V("s"), K(2)]], ["bun", "b", ["bundle", [V("a"), V("m"), ["lit", "signal-B", K(-4)]]]], ["bun", "r", ["bin", "+", V("b"), V("m")]]])
    add("opmember-filter", [["bun", "b", LIN], ["bun", "r", ["cond", ["cmp", ">", V("b"), V("a")], V("b")]]])
    # bundle literal member VALUES supplied by int variables, iterators and parameters (with shadowed names)
    add("lit-int-var", [["int", "n", K(7)], ["bun", "b", ["bundle", [["lit", "signal-B", V("n")], ["lit", "coal", ["bin", "*", V("n"), K(10)]], V("a")]]], ["bun", "r", ["bin", "*", V("b"), K(2)]]])
    # (one call / one iteration each: bundle constants of several calls or iterations are summed on the pinned tree)
    mkf = lambda body, ret: ["func", "mk", [["int", "n"], ["Signal", "x"]], body, ret]  # noqa: E731
    CB = ["bun", "cb", ["bundle", [["lit", "signal-C", V("n")], ["lit", "coal", ["bin", "*", V("n"), K(10)]], ["lit", "signal-B", ["neg", V("n")]]]]]
    add("lit-param-shadows-int-sel", [["int", "n", K(7)], mkf([CB], ["bin", "+", ["sel", V("cb"), "coal"], V("x")]), ["sig", "o1", ["proj", ["call", "mk", [K(3), V("a")]], "signal-X"]]])
    add("lit-param-shadows-int-any", [["int", "n", K(7)], mkf([CB], ["cmp", ">", ["any", V("cb")], V("x")]), ["sig", "o1", ["proj", ["call", "mk", [K(3), V("a")]], "signal-X"]]])
    add("lit-param-shadows-int-arith", [["int", "n", K(7)], mkf([CB, ["bun", "db", ["bin", "*", V("cb"), K(2)]]], ["bin", "+", ["sel", V("db"), "signal-C"], V("x")]), ["sig", "o1", ["proj", ["call", "mk", [K(3), V("a")]], "signal-X"]]])
    add("lit-param-no-shadow", [mkf([CB], ["bin", "+", ["sel", V("cb"), "coal"], V("x")]), ["sig", "o1", ["proj", ["call", "mk", [K(3), V("a")]], "signal-X"]]])
    add("lit-iterator-shadows-int", [["int", "n", K(7)], ["for", "n", ["list", [3]], [CB, ["bun", "db", ["bin", "*", V("cb"), K(2)]], ["place", "l", "small-lamp", V("n"), K(0), None], ["enable", "l", ["cmp", ">", ["any", V("db")], V("a")]],
                                                                                       ["place", "k", "small-lamp", V("n"), K(2), None], ["enable", "k", ["cmp", "<", ["all", V("cb")], V("a")]]]]])
    add("lit-iterator", [["for", "i", ["list", [4]], [["bun", "cb", ["bundle", [["lit", "signal-B", V("i")], ["lit", "coal", ["bin", "+", V("i"), K(1)]]]]], ["place", "l", "small-lamp", V("i"), K(0), None], ["enable", "l", ["cmp", ">", ["any", ["bin", "*", V("cb"), K(3)]], V("a")]]]]])
    add("nested", [["bun", "b", LIN], ["bun", "n", ["bundle", [V("b"), ["lit", "coal", K(3)]]]], ["bun", "r", ["bin", "*", V("n"), K(2)]]])
    add("nested2", [["bun", "b", L3], ["bun", "b2", ["bundle", [V("a"), V("c")]]], ["bun", "n", ["bundle", [V("b"), V("b2")]]]])
    add("zero-all", [["bun", "b", ["bundle", [["lit", "signal-B", K(0)], ["lit", "coal", K(0)]]]], ["sig", "r", ["cmp", ">", ["all", V("b")], K(5)]], ["sig", "r2", ["cmp", ">", ["any", V("b")], K(5)]]])
    add("chain", [["bun", "b", LIN], ["bun", "x", ["bin", "*", V("b"), K(2)]], ["bun", "y", ["cond", ["cmp", ">", V("x"), K(10)], V("x")]], ["bun", "z", ["bin", "-", V("y"), V("s")]]])
    add("two-users", [["bun", "b", LIN], ["bun", "x", ["bin", "*", V("b"), K(2)]], ["bun", "y", ["bin", "+", V("b"), K(1)]]])
    add("computed-member", [["sig", "m", ["bin", "*", V("a"), K(2)]], ["bun", "b", ["bundle", [V("m"), V("c")]]], ["bun", "r", ["bin", "+", V("b"), K(1)]]])
    add("wm-member", [["sig", "m", ["bin", "+", V("a"), V("t")]], ["bun", "b", ["bundle", [V("m"), ["lit", "signal-B", K(4)]]]], ["bun", "r", ["bin", "*", V("b"), K(3)]]])
    add("empty", [["bun", "b", ["bundle", []]], ["bun", "r", ["bin", "+", V("b"), K(1)]]])
    return progs


def corpus_c02(tier):
    n = 50 if tier == "quick" else 300
    fixed = fam_bundle_fixed()
    if tier == "quick":
        fixed = [c for i, c in enumerate(fixed) if i % 3 == 0 or "mix" in c["id"] or not c["id"].split("-")[1] in ("const", "in", "mix", "named", "nested", "cnamed")]
    return fixed + [fam_bundle(i) for i in range(n)]


# ======================================================================================
#  C03 gated memory cells
# ======================================================================================

M_INPUTS = [("x", "signal-A", 10007), ("y", "signal-B", 10009), ("z", "iron-plate", 10037)]


def _mem_prog(name, data, enable, mtype="signal-M", readers=1, extra=None, inputs=M_INPUTS, fam="mem"):
    stmts = [["input", n, t, d] for (n, t, d) in inputs]
    stmts.append(["mem", "m", mtype])
    stmts.append(["write", "m", data, enable])
    for i in range(readers):
        if i == 0:
            stmts.append(["sig", "r0", ["read", "m"]])
        elif i == 1:
            stmts.append(["sig", "r1", ["proj", ["bin", "+", ["read", "m"], K(1)], "signal-X"]])
        else:
            stmts.append(["sig", f"r{i}", ["proj", ["bin", "*", ["read", "m"], K(i)], "signal-Y"]])
    if extra:
        stmts += extra
    return {"id": name, "family": fam, "stmts": stmts, "kind": "history"}


def fam_mem_fixed():
    X, Y, Z = V("x"), V("y"), V("z")
    P = lambda e, t="signal-M": ["proj", e, t]  # noqa: E731
    progs = []
    progs.append(_mem_prog("mfixed-basic", P(X), ["cmp", ">", Y, K(0)], fam="fixed"))
    progs.append(_mem_prog("mfixed-ident-enable", P(X), Y, fam="fixed"))
    progs.append(_mem_prog("mfixed-typed-data", X, ["cmp", ">", Y, K(5)], mtype="signal-A", fam="fixed"))
    progs.append(_mem_prog("mfixed-item-type", P(X, "iron-plate"), ["cmp", "!=", Y, K(0)], mtype="iron-plate", fam="fixed"))
    progs.append(_mem_prog("mfixed-untyped-mem", P(X, "signal-Q"), ["cmp", ">", Y, K(0)], mtype=None, fam="fixed"))
    progs.append(_mem_prog("mfixed-shared-input", P(["bin", "*", X, K(2)]), ["cmp", ">", X, K(10)], fam="fixed"))
    progs.append(_mem_prog("mfixed-shared-deep-enable", P(X), ["cmp", ">", ["bin", "-", ["bin", "*", X, K(3)], K(4)], K(5)], fam="fixed"))
    progs.append(_mem_prog("mfixed-deep-data", P(["bin", "+", ["bin", "*", X, K(3)], Z]), ["cmp", ">", Y, K(0)], fam="fixed"))
    progs.append(_mem_prog("mfixed-deep-enable", P(X), ["cmp", ">", ["bin", "+", ["bin", "*", Y, K(3)], K(1)], K(5)], fam="fixed"))
    progs.append(_mem_prog("mfixed-arith-enable", P(X), ["bin", "-", Y, K(3)], fam="fixed"))
    progs.append(_mem_prog("mfixed-two-readers", P(X), ["cmp", ">", Y, K(0)], readers=2, fam="fixed"))
    progs.append(_mem_prog("mfixed-three-readers", P(X), ["cmp", ">", Y, K(0)], readers=3, fam="fixed"))
    progs.append(_mem_prog("mfixed-and-enable", P(X), ["and", ["cmp", ">", Y, K(0)], ["cmp", "<", Z, K(100)]], fam="fixed"))
    progs.append(_mem_prog("mfixed-const-data", ["lit", "signal-M", K(42)], ["cmp", ">", Y, K(0)], fam="fixed"))
    progs.append(_mem_prog("mfixed-enable-same-type", P(X, "signal-B"), ["cmp", ">", Y, K(0)], mtype="signal-B", fam="fixed"))
    # two cells sharing an enable
    two = _mem_prog("mfixed-two-cells", P(X), ["cmp", ">", Y, K(0)], fam="fixed")
    two["stmts"] += [["mem", "n", "signal-N"], ["write", "n", P(Z, "signal-N"), ["cmp", ">", Y, K(0)]], ["sig", "s0", ["read", "n"]]]
    progs.append(two)
    two2 = _mem_prog("mfixed-two-cells-same-type", P(X), ["cmp", ">", Y, K(0)], fam="fixed")
    two2["stmts"] += [["mem", "n", "signal-M"], ["write", "n", P(Z, "signal-M"), ["cmp", "<", Y, K(0)]], ["sig", "s0", ["proj", ["read", "n"], "signal-Y"]]]
    progs.append(two2)
    # data and enable driven by ONE input, balanced path depths: inline / named comparison / named chain
    for dn, dexpr in (("d0", P(X)), ("d1", P(["bin", "*", X, K(2)])), ("d1typed", ["bin", "*", X, K(2)])):
        mt = "signal-A" if dn == "d1typed" else "signal-M"
        progs.append(_mem_prog(f"mfixed-shared-inline-{dn}", dexpr, ["cmp", ">", X, K(3)], mtype=mt, fam="fixed"))
        c = _mem_prog(f"mfixed-shared-named-{dn}", dexpr, V("hot"), mtype=mt, fam="fixed")
        c["stmts"].insert(3, ["sig", "hot", ["cmp", ">", X, K(3)]])
        progs.append(c)
        c = _mem_prog(f"mfixed-shared-named-chain-{dn}", dexpr, V("hot"), mtype=mt, fam="fixed")
        c["stmts"].insert(3, ["sig", "hot", ["and", ["cmp", ">", X, K(3)], ["cmp", "<", X, K(100)]]])
        progs.append(c)
        c = _mem_prog(f"mfixed-shared-named-two-cells-{dn}", dexpr, V("hot"), mtype=mt, fam="fixed")
        c["stmts"].insert(3, ["sig", "hot", ["cmp", ">", X, K(3)]])
        c["stmts"] += [["mem", "n", "signal-N"], ["write", "n", P(Y, "signal-N"), V("hot")], ["sig", "s0", ["read", "n"]]]
        progs.append(c)
    # the same enable text / the same bare input as enable of two cells
    for en_nm, en in (("cmp", ["cmp", ">", Y, K(0)]), ("bare", Y), ("and", ["and", ["cmp", ">", Y, K(0)], ["cmp", "<", Y, K(50)]]), ("arith", ["bin", "-", Y, K(0)])):
        c = _mem_prog(f"mfixed-same-enable-{en_nm}", P(X), en, fam="fixed")
        c["stmts"] += [["mem", "n", "signal-N"], ["write", "n", P(Z, "signal-N"), en], ["sig", "s0", ["read", "n"]], ["mem", "k", "signal-K"], ["write", "k", P(["bin", "+", X, Z], "signal-K"), en], ["sig", "t0", ["read", "k"]]]
        progs.append(c)
    for nm, data, en, mt in (("basic", P(X), ["cmp", ">", Y, K(0)], "signal-M"), ("typed", ["bin", "*", X, K(2)], ["cmp", ">", Y, K(5)], "signal-A"), ("shared", P(["bin", "+", X, K(1)]), ["cmp", ">", X, K(3)], "signal-M"), ("bare", P(X), Y, "signal-M")):
        c = _mem_prog(f"mfixed-read-before-write-{nm}", data, en, mtype=mt, readers=0, fam="fixed")
        # stmts: inputs, mem, write  ->  move two readers BEFORE the write, one after
        w = c["stmts"].pop()
        c["stmts"] += [["sig", "r0", ["read", "m"]], ["sig", "r1", ["proj", ["bin", "+", ["read", "m"], K(1)], "signal-X"]], w, ["sig", "r2", ["proj", ["bin", "*", ["read", "m"], K(2)], "signal-Y"]]]
        progs.append(c)
    # constants of every sign as data (typed literal, bare int, int variable); negated / quantified / function-made enables
    for vn, vv in (("k0", 0), ("kneg1", -1), ("kneg5", -5), ("k1", 1), ("kmin", -2147483648)):
        progs.append(_mem_prog(f"mfixed-const-data-{vn}", ["lit", "signal-M", K(vv)], ["cmp", ">", Y, K(0)], fam="fixed"))
        progs.append(_mem_prog(f"mfixed-int-data-{vn}", K(vv), ["cmp", ">", Y, K(0)], fam="fixed"))
        c = _mem_prog(f"mfixed-intvar-data-{vn}", ["lit", "signal-M", V("kv")], Y, fam="fixed")
        c["stmts"].insert(0, ["int", "kv", K(vv)])
        progs.append(c)
    BYZ = ["bundle", [Y, Z]]
    for en_nm, en in (("not-cmp", ["not", ["cmp", ">", Y, K(0)]]), ("not-sig", ["not", Y]), ("not-and", ["not", ["and", ["cmp", ">", Y, K(0)], ["cmp", "<", Z, K(100)]]]), ("or", ["or", ["cmp", ">", Y, K(0)], ["cmp", "<", Z, K(0)]]),
                      ("any", ["cmp", ">", ["any", BYZ], K(5)]), ("all", ["cmp", ">", ["all", BYZ], K(5)]), ("not-any", ["not", ["cmp", ">", ["any", BYZ], K(5)]]), ("not-all", ["not", ["cmp", ">", ["all", BYZ], K(5)]]),
                      ("condk", ["cond", ["cmp", ">", Y, K(0)], K(1)]), ("int-left", ["cmp", "<", K(0), Y])):
        progs.append(_mem_prog(f"mfixed-enable-{en_nm}", P(X), en, fam="fixed"))
    Fn = lambda name, params, body, ret: ["func", name, [list(p) for p in params], body, ret]  # noqa: E731
    c = _mem_prog("mfixed-func-data", P(["call", "step", [X, K(3)]]), ["cmp", ">", Y, K(0)], fam="fixed")
    c["stmts"] = [Fn("scale", [("Signal", "v"), ("int", "k")], [], ["bin", "*", V("v"), V("k")]), Fn("step", [("Signal", "v"), ("int", "k")], [], ["bin", "+", ["call", "scale", [V("v"), ["bin", "+", V("k"), K(2)]]], V("k")])] + c["stmts"]
    progs.append(c)
    c = _mem_prog("mfixed-func-enable", P(X), ["call", "hot", [Y, K(4)]], fam="fixed")
    c["stmts"] = [Fn("hot", [("Signal", "v"), ("int", "k")], [], ["cmp", ">", V("v"), V("k")])] + c["stmts"]
    progs.append(c)
    # round 4: ONE named value used as the data of one cell (its type = the cell's type, wired directly) and as the enable of another, both orders
    for en_nm, e_expr, mt in (("arith", ["bin", "+", X, Z], "signal-A"), ("arith-proj", P(["bin", "+", X, Z]), "signal-M"), ("cmp", P(["cmp", ">", X, K(3)]), "signal-M"), ("input", None, "signal-A")):
        for order in ("data-first", "enable-first"):
            ev = V("e") if e_expr is not None else X
            w1 = [["mem", "m", mt], ["write", "m", ev, ["cmp", ">", Y, K(3)]]]
            w2 = [["mem", "n", "signal-N"], ["write", "n", P(Y, "signal-N"), ev]]
            st = [["input", n, t, d] for (n, t, d) in M_INPUTS] + ([["sig", "e", e_expr]] if e_expr is not None else []) + (w1 + w2 if order == "data-first" else w2 + w1)
            st += [["sig", "r0", ["read", "m"]], ["sig", "s0", ["read", "n"]]]
            progs.append({"id": f"mfixed-value-and-enable-{en_nm}-{order}", "family": "fixed", "stmts": st, "kind": "history"})
    named_en = _mem_prog("mfixed-named-enable", P(X), V("en"), fam="fixed")
    named_en["stmts"].insert(3, ["sig", "en", ["cmp", ">", Y, K(0)]])
    progs.append(named_en)
    return progs


def fam_mem(index):
    rnd = random.Random(f"mem-{index}")
    g = ExprGen(rnd, ["x", "y", "z"])
    share = rnd.random() < 0.4
    dgen = ExprGen(rnd, ["x", "z"] if not share else ["x", "y", "z"])
    egen = ExprGen(rnd, ["y"] if not share else ["x", "y"])
    ddepth = rnd.choice([0, 0, 1, 1, 2])
    edepth = rnd.choice([0, 1, 1, 2])
    mtype = rnd.choice(["signal-M", "signal-M", "signal-A", "iron-plate", None])
    data = dgen.sig(ddepth)
    data = ["proj", data, mtype or "signal-Q"]
    enable = egen.cmp(edepth) if rnd.random() < 0.75 else egen.sig(edepth)
    c = _mem_prog(f"mem-{index:04d}", data, enable, mtype=mtype, readers=rnd.choice([1, 1, 2, 3]))
    return c


def corpus_c03(tier):
    n = 24 if tier == "quick" else 160
    cases = fam_mem_fixed() + [fam_mem(i) for i in range(n)]
    # "reading it never disturbs it": the same cell with one reader and with three readers (twins, K-step histories)
    X, Y = V("x"), V("y")
    for nm, data, en in (("basic", ["proj", X, "signal-M"], ["cmp", ">", Y, K(0)]), ("typed", ["bin", "*", X, K(2)], ["cmp", ">", Y, K(5)]), ("named", ["proj", X, "signal-M"], Y)):
        mt = "signal-A" if nm == "typed" else "signal-M"
        one = _mem_prog("a", data, en, mtype=mt, readers=1)["stmts"]
        three = _mem_prog("b", data, en, mtype=mt, readers=3)["stmts"]
        pairs = [{"a": {"stmts": three, "build": b, "label": "3 readers"}, "b": {"stmts": one, "build": b, "label": "1 reader"}, "tag": f"{b['tag']}/readers", "names": ["r0"]} for b in (OPT, NOOPT)]
        cases.append({"id": f"mreaders-{nm}", "family": "fixed", "kind": "equiv", "pairs": pairs, "params": {"K": 4}})
    return cases


# ======================================================================================
#  C04 self-referential unconditional writes
# ======================================================================================


def _loop_prog(name, body, readers=("r1",), mtype="signal-M", fam="loop", inputs=M_INPUTS[:2], extra_readers=True):
    stmts = [["input", n, t, d] for (n, t, d) in inputs]
    stmts.append(["mem", "m", mtype])
    stmts += body
    stmts.append(["sig", "r0", ["read", "m"]])
    rd = []
    if extra_readers:
        stmts.append(["sig", "r1", ["proj", ["bin", "+", ["read", "m"], K(1)], "signal-X"]])
        rd.append("r1")
    return {"id": name, "family": fam, "stmts": stmts, "kind": "loop", "params": {"readers": rd}}


def fam_loop_fixed():
    R = ["read", "m"]
    X, Y = V("x"), V("y")
    P = lambda e, t="signal-M": ["proj", e, t]  # noqa: E731
    progs = []

    def add(name, body, **kw):
        progs.append(_loop_prog(f"lfixed-{name}", body, fam="fixed", **kw))

    add("counter", [["write", "m", ["bin", "+", R, K(1)], None]])
    add("counter-item", [["write", "m", ["bin", "+", R, K(1)], None]], mtype="iron-plate")
    add("counter-untyped-mem", [["write", "m", ["proj", ["bin", "+", R, K(1)], "signal-Q"], None]], mtype=None)
    add("acc", [["write", "m", ["bin", "+", R, P(X)], None]])
    add("modclock", [["write", "m", ["bin", "%", ["bin", "+", R, K(1)], K(10)], None]])
    add("lcg", [["write", "m", ["bin", "%", ["bin", "+", ["bin", "*", R, K(3)], K(7)], K(17)], None]])
    add("lcg-input", [["write", "m", ["bin", "%", ["bin", "+", ["bin", "*", R, K(3)], P(X)], K(17)], None]])
    add("xorshift", [["write", "m", ["bin", "XOR", R, ["bin", "<<", ["bin", "+", R, K(1)], K(3)]], None]])
    add("chain3", [["sig", "s1", ["bin", "+", R, K(1)]], ["sig", "s2", ["bin", "*", V("s1"), K(3)]], ["sig", "s3", ["bin", "%", V("s2"), K(17)]], ["write", "m", V("s3"), None]])
    add("chain4", [["sig", "s1", ["bin", "+", R, K(1)]], ["sig", "s2", ["bin", "*", V("s1"), K(3)]], ["sig", "s3", ["bin", "%", V("s2"), K(17)]], ["sig", "s4", ["bin", "%", V("s3"), K(100)]], ["write", "m", V("s4"), None]])
    add("chain-proj", [["sig", "s1", ["proj", ["bin", "+", R, K(1)], "signal-T"]], ["sig", "s2", ["proj", ["bin", "*", V("s1"), K(5)], "signal-M"]], ["write", "m", V("s2"), None]])
    add("sub-input", [["write", "m", ["bin", "-", R, P(Y)], None]])
    add("mul2", [["write", "m", ["bin", "+", ["bin", "*", R, K(2)], K(1)], None]])
    add("twice-read", [["write", "m", ["bin", "+", ["bin", "+", R, R], K(1)], None]])
    add("no-extra-reader", [["write", "m", ["bin", "+", R, K(2)], None]], extra_readers=False)
    add("cond-reset", [["write", "m", ["cond", ["cmp", "<", R, K(9)], ["bin", "+", R, K(1)]], None]])
    # literal / input on the LEFT of the first step, cell on the right
    add("int-left-1", [["write", "m", ["bin", "-", K(10), R], None]])
    add("int-left-2", [["write", "m", ["bin", "*", ["bin", "-", K(10), R], K(3)], None]])
    add("int-left-3", [["write", "m", ["bin", "%", ["bin", "+", K(7), ["bin", "*", K(3), R]], K(17)], None]])
    add("int-left-named", [["sig", "s1", ["bin", "-", K(10), R]], ["sig", "s2", ["bin", "*", V("s1"), K(3)]], ["write", "m", V("s2"), None]])
    add("input-left", [["write", "m", ["bin", "*", ["proj", ["bin", "-", X, R], "signal-M"], K(3)], None]])
    add("cell-right-add", [["write", "m", ["bin", "+", K(1), R], None]])
    # readers declared BEFORE the write, shared read
    for nm, pre in (("alias", [["sig", "pre", R]]), ("arith", [["sig", "pre", ["proj", ["bin", "*", R, K(1)], "signal-Y"]]]), ("arith-same-type", [["sig", "pre", ["bin", "*", R, K(1)]]]),
                    ("shared-cur", [["sig", "cur", R], ["sig", "pre", ["proj", ["bin", "+", V("cur"), K(5)], "signal-Y"]]])):
        wr = ["bin", "+", V("cur") if nm == "shared-cur" else R, P(X)]
        progs.append(_loop_prog(f"lfixed-reader-before-{nm}", pre + [["write", "m", wr, None]], fam="fixed"))
        progs.append(_loop_prog(f"lfixed-reader-before-{nm}-const", pre + [["write", "m", ["bin", "+", V("cur") if nm == "shared-cur" else R, K(1)], None]], fam="fixed"))
        progs.append(_loop_prog(f"lfixed-reader-before-{nm}-chain", pre + [["write", "m", ["bin", "%", ["bin", "+", V("cur") if nm == "shared-cur" else R, K(1)], K(10)], None]], fam="fixed"))
    # the written value takes its type from an UNTYPED signal on the left of the last step
    uin = M_INPUTS[:2] + [("ku", None, 10061)]
    for nm, wr in (("untyped-left-add", ["bin", "+", V("ku"), R]), ("untyped-left-sub", ["bin", "-", V("ku"), R]), ("untyped-left-chain", ["bin", "%", ["bin", "+", ["bin", "*", V("ku"), R], K(1)], K(101)]), ("untyped-right", ["bin", "+", R, V("ku")])):
        progs.append(_loop_prog(f"lfixed-{nm}", [["write", "m", wr, None]], fam="fixed", inputs=uin))
    # a combinator-produced value on the cell's own signal, declared before the write, entering the first step
    for nm, wr in (("typed-before-add-mod", ["bin", "%", ["bin", "+", R, V("tb")], K(50)]), ("typed-before-sub", ["bin", "*", ["bin", "-", V("tb"), R], K(1)]), ("typed-before-3", ["bin", "%", ["bin", "*", ["bin", "+", R, V("tb")], K(3)], K(97)])):
        progs.append(_loop_prog(f"lfixed-{nm}", [["sig", "tb", ["proj", ["bin", "*", X, K(2)], "signal-M"]], ["write", "m", wr, None]], fam="fixed"))
        progs[-1]["params"]["warmup"] = 3
        progs.append(_loop_prog(f"lfixed-{nm}-after", [["write", "m", wr, None]], fam="fixed"))
        progs[-1]["stmts"].insert(2, ["sig", "tb", ["proj", ["bin", "*", X, K(2)], "signal-M"]])
        progs[-1]["params"]["warmup"] = 3
    # f factored into helper functions: one level; nested with same-named / other-named parameters, the caller using its own
    # parameters again AFTER the inner call; a helper with a local
    Fn = lambda name, params, body, ret: ["func", name, [list(p) for p in params], body, ret]  # noqa: E731
    scale = Fn("scale", [("Signal", "v"), ("int", "k")], [], ["bin", "*", V("v"), V("k")])
    add("func-one-level", [scale, ["write", "m", ["bin", "%", ["bin", "+", ["call", "scale", [R, K(5)]], K(3)], K(64)], None]])
    add("func-nested-same-params", [scale, Fn("step", [("Signal", "v"), ("int", "k")], [], ["bin", "%", ["bin", "+", ["call", "scale", [V("v"), ["bin", "+", V("k"), K(2)]]], V("k")], K(64)]), ["write", "m", ["call", "step", [R, K(3)]], None]])
    add("func-nested-other-params", [scale, Fn("step", [("Signal", "w"), ("int", "j")], [], ["bin", "%", ["bin", "+", ["call", "scale", [V("w"), ["bin", "+", V("j"), K(2)]]], V("j")], K(64)]), ["write", "m", ["call", "step", [R, K(3)]], None]])
    add("func-nested-signal-param-reused", [scale, Fn("step", [("Signal", "v")], [], ["bin", "%", ["bin", "+", ["call", "scale", [["bin", "+", V("v"), K(1)], K(3)]], V("v")], K(61)]), ["write", "m", ["call", "step", [R]], None]])
    add("func-with-local", [Fn("upd", [("Signal", "v")], [["sig", "t", ["bin", "+", V("v"), K(1)]]], ["bin", "%", ["bin", "*", V("t"), K(3)], K(17)]), ["write", "m", ["call", "upd", [R]], None]])
    add("func-input-arg", [Fn("mixin", [("Signal", "v"), ("Signal", "w")], [], ["bin", "%", ["bin", "+", ["bin", "*", V("v"), K(3)], V("w")], K(17)]), ["write", "m", ["call", "mixin", [R, P(X)]], None]])
    # a later step with the INPUT (or another signal) on the left and the running value on the right
    add("later-step-input-left-sub", [["write", "m", P(["bin", "-", X, ["bin", "*", R, K(3)]]), None]])
    add("later-step-input-left-add-mod", [["write", "m", ["bin", "%", P(["bin", "+", X, ["bin", "*", ["bin", "+", R, K(1)], K(2)]]), K(31)], None]])
    add("later-step-input-left-named", [["sig", "s1", ["bin", "*", R, K(3)]], ["sig", "s2", P(["bin", "-", X, V("s1")])], ["write", "m", V("s2"), None]])
    # the other operand of a ONE-step cell travels on the cell's own signal (explicitly, or an untyped constant on a pool-typed cell)
    add("one-step-input-on-cell-signal", [["write", "m", ["bin", "+", R, V("x")], None]], mtype="signal-A")
    add("one-step-input-on-cell-signal-sub", [["write", "m", ["bin", "-", R, V("x")], None]], mtype="signal-A")
    add("one-step-lit-on-cell-signal", [["sig", "kc", ["lit", "signal-M", K(7)]], ["write", "m", ["bin", "+", R, V("kc")], None]])
    add("one-step-untyped-const", [["sig", "kc", K(5)], ["write", "m", ["bin", "+", R, V("kc")], None]], mtype="signal-A")
    # two-stage loops with several further consumers of the loop output
    add("two-stage-many-readers", [["sig", "s1", ["bin", "+", R, K(1)]], ["sig", "s2", ["bin", "%", V("s1"), K(10)]], ["write", "m", V("s2"), None], ["sig", "u1", ["proj", ["bin", "*", V("s2"), K(2)], "signal-U"]], ["sig", "u2", ["proj", ["bin", "+", V("s2"), K(7)], "signal-V"]]])
    return progs


def fam_loop(index):
    rnd = random.Random(f"loop-{index}")
    R = ["read", "m"]
    mtype = rnd.choice(["signal-M", "signal-M", "signal-A", "iron-plate"])
    steps = rnd.choice([1, 1, 2, 3, 4, 5])
    named = rnd.random() < 0.5
    body = []
    cur = R
    for i in range(steps):
        op = rnd.choice(["+", "+", "-", "*", "%", "/", "XOR", "AND", "OR", "<<", ">>"])
        if op in ("%", "/"):
            rhs = K(rnd.choice([3, 7, 10, 17, 100]))
        elif op in ("<<", ">>"):
            rhs = K(rnd.choice([1, 2, 3]))
        elif rnd.random() < 0.3:
            rhs = ["proj", V(rnd.choice(["x", "y"])), mtype]
        else:
            rhs = K(rnd.choice([1, 2, 3, 5, 7, 255, -1]))
        e = ["bin", op, cur, rhs] if (rnd.random() < 0.75 or op in ("%", "/", "<<", ">>")) else ["bin", op, rhs, cur]
        if named and i < steps - 1:
            body.append(["sig", f"s{i}", e])
            cur = V(f"s{i}")
        else:
            cur = e
    body.append(["write", "m", cur, None])
    return _loop_prog(f"loop-{index:04d}", body, mtype=mtype, extra_readers=rnd.random() < 0.6)


def corpus_c04(tier):
    n = 20 if tier == "quick" else 120
    return fam_loop_fixed() + [fam_loop(i) for i in range(n)]


# ======================================================================================
#  C05 set/reset latches
# ======================================================================================

L_INPUTS = [("t", "signal-T", 10007), ("u", "signal-U", 10009), ("v", "signal-V", 10037), ("s", "signal-S", 10039), ("r", "signal-R", 10061),
            ("cl", "signal-L", 10067), ("cl2", "signal-L", 10069)]  # cl/cl2: inputs that travel on the CELL's own signal type


def _latch_prog(name, val, st, rs, order, ins, mtype="signal-L", bools=(), fam="latch"):
    pool = {n: (n, t, d) for (n, t, d) in L_INPUTS}
    stmts = [["input"] + list(pool[n]) for n in ins]
    stmts.append(["mem", "m", mtype])
    stmts.append(["latch", "m", val, st, rs, order])
    stmts.append(["sig", "r0", ["read", "m"]])
    stmts.append(["sig", "r1", ["proj", ["cmp", ">", ["read", "m"], K(0)], "signal-X"]])
    return {"id": name, "family": fam, "stmts": stmts, "kind": "history", "params": {"bool_inputs": list(bools)}}


def fam_latch_fixed():
    T, U = V("t"), V("u")
    progs = []
    for order in ("sr", "rs"):
        # one shared input, inlinable comparisons
        for nm, (so, sc, ro, rc) in {
            "hyst": ("<", 20, ">=", 80),
            "hyst-rev": (">", 80, "<=", 20),
            "touch": ("<", 50, ">=", 50),
            "overlap": ("<", 50, ">=", 30),
            "overlap2": ("<=", 50, ">", 10),
            "eq": ("==", 5, "==", 7),
            "ne": ("!=", 5, "==", 5),
            "neg": ("<", -10, ">", 10),
        }.items():
            progs.append(_latch_prog(f"qfixed-{order}-{nm}", K(1), ["cmp", so, T, K(sc)], ["cmp", ro, T, K(rc)], order, ["t"], fam="fixed"))
        progs.append(_latch_prog(f"qfixed-{order}-v5", K(5), ["cmp", "<", T, K(20)], ["cmp", ">=", T, K(80)], order, ["t"], fam="fixed"))
        for vn, vv in (("vneg1", -1), ("vneg5", -5), ("v0", 0), ("v2", 2), ("vmin", -2147483648)):
            progs.append(_latch_prog(f"qfixed-{order}-inl-{vn}", K(vv), ["cmp", "<", T, K(20)], ["cmp", ">=", T, K(80)], order, ["t"], fam="fixed"))
            progs.append(_latch_prog(f"qfixed-{order}-two-{vn}", K(vv), ["cmp", ">", T, K(10)], ["cmp", ">", U, K(10)], order, ["t", "u"], fam="fixed"))
            progs.append(_latch_prog(f"qfixed-{order}-bool-{vn}", K(vv), V("s"), V("r"), order, ["s", "r"], bools=("s", "r"), fam="fixed"))
        c = _latch_prog(f"qfixed-{order}-intvar-neg", V("kv"), ["cmp", "<", T, K(20)], ["cmp", ">=", T, K(80)], order, ["t"], fam="fixed")
        c["stmts"].insert(0, ["int", "kv", ["bin", "-", K(2), K(9)]])
        progs.append(c)
        progs.append(_latch_prog(f"qfixed-{order}-vsig", ["proj", V("v"), "signal-L"], ["cmp", "<", T, K(20)], ["cmp", ">=", T, K(80)], order, ["t", "v"], fam="fixed"))
        progs.append(_latch_prog(f"qfixed-{order}-two-inputs", K(1), ["cmp", ">", T, K(10)], ["cmp", ">", U, K(10)], order, ["t", "u"], fam="fixed"))
        progs.append(_latch_prog(f"qfixed-{order}-two-inputs-v7", K(7), ["cmp", ">", T, K(10)], ["cmp", "<", U, K(0)], order, ["t", "u"], fam="fixed"))
        progs.append(_latch_prog(f"qfixed-{order}-bool", K(1), V("s"), V("r"), order, ["s", "r"], bools=("s", "r"), fam="fixed"))
        progs.append(_latch_prog(f"qfixed-{order}-bool-v9", K(9), V("s"), V("r"), order, ["s", "r"], bools=("s", "r"), fam="fixed"))
        progs.append(_latch_prog(f"qfixed-{order}-bool-celltype", K(1), ["proj", V("s"), "signal-L"], V("r"), order, ["s", "r"], bools=("s", "r"), fam="fixed"))
        progs.append(_latch_prog(f"qfixed-{order}-named-cmp", K(1), V("lo"), V("hi"), order, ["t"], fam="fixed"))
        progs[-1]["stmts"].insert(1, ["sig", "lo", ["cmp", "<", T, K(20)]])
        progs[-1]["stmts"].insert(2, ["sig", "hi", ["cmp", ">=", T, K(80)]])
        CL, CL2 = V("cl"), V("cl2")
        progs.append(_latch_prog(f"qfixed-{order}-reset-on-celltype", K(1), ["cmp", ">", T, K(5)], ["cmp", ">", CL, K(3)], order, ["t", "cl"], fam="fixed"))
        progs.append(_latch_prog(f"qfixed-{order}-set-on-celltype", K(1), ["cmp", ">", CL, K(5)], ["cmp", ">", T, K(3)], order, ["t", "cl"], fam="fixed"))
        progs.append(_latch_prog(f"qfixed-{order}-both-on-celltype", K(1), ["cmp", ">", CL, K(5)], ["cmp", ">", CL2, K(3)], order, ["cl", "cl2"], fam="fixed"))
        progs.append(_latch_prog(f"qfixed-{order}-bool-reset-celltype", K(1), V("s"), CL, order, ["s", "cl"], bools=("s", "cl"), fam="fixed"))
        progs.append(_latch_prog(f"qfixed-{order}-bool-both-celltype", K(1), CL, CL2, order, ["cl", "cl2"], bools=("cl", "cl2"), fam="fixed"))
        progs.append(_latch_prog(f"qfixed-{order}-value-and-reset-celltype", CL2, ["cmp", ">", T, K(5)], ["cmp", ">", CL, K(3)], order, ["t", "cl", "cl2"], fam="fixed"))
        progs.append(_latch_prog(f"qfixed-{order}-inl-on-celltype", K(1), ["cmp", "<", CL, K(20)], ["cmp", ">=", CL, K(80)], order, ["cl"], fam="fixed"))
        # a latch next to duplicated sub-expressions (CSE active), and next to same-typed siblings (colouring order)
        c = _latch_prog(f"qfixed-{order}-with-cse-dups", K(1), ["cmp", "<", T, K(20)], ["cmp", ">=", T, K(80)], order, ["t", "u"], fam="fixed")
        c["stmts"] += [["sig", "d1", ["proj", ["bin", "+", ["bin", "*", U, K(2)], K(1)], "signal-X"]], ["sig", "d2", ["proj", ["bin", "-", ["bin", "*", U, K(2)], K(1)], "signal-Y"]]]
        progs.append(c)
        c = _latch_prog(f"qfixed-{order}-with-cse-dups-v5", K(5), ["cmp", "<", T, K(20)], ["cmp", ">=", T, K(80)], order, ["t", "u"], fam="fixed")
        c["stmts"] += [["sig", "d1", ["proj", ["bin", "+", ["bin", "*", T, K(2)], K(1)], "signal-X"]], ["sig", "d2", ["proj", ["bin", "-", ["bin", "*", T, K(2)], K(1)], "signal-Y"]]]
        progs.append(c)
        sib = [["input", "t", "signal-T", 10007], ["input", "y", "signal-T", 10009], ["input", "w", "signal-T", 10037]]
        c = _latch_prog(f"qfixed-{order}-same-typed-siblings", K(1), ["cmp", "<", T, K(20)], ["cmp", ">=", T, K(80)], order, [], fam="fixed")
        c["stmts"] = sib + c["stmts"] + [["sig", "d1", ["proj", ["bin", "-", T, V("y")], "signal-X"]], ["sig", "d2", ["proj", ["bin", "-", V("w"), V("y")], "signal-Y"]]]
        progs.append(c)
        c = _latch_prog(f"qfixed-{order}-same-typed-siblings-2", K(1), ["cmp", ">", T, K(50)], ["cmp", "<", T, K(10)], order, [], fam="fixed")
        c["stmts"] = sib + c["stmts"] + [["sig", "d1", ["proj", ["bin", "+", T, V("y")], "signal-X"]], ["sig", "d2", ["proj", ["bin", "+", V("w"), V("y")], "signal-Y"]], ["sig", "d3", ["proj", ["bin", "*", V("w"), T], "signal-Z"]]]
        progs.append(c)
        c = _latch_prog(f"qfixed-{order}-read-before-write", K(1), ["cmp", "<", T, K(20)], ["cmp", ">=", T, K(80)], order, ["t"], fam="fixed")
        c["stmts"] = [st for st in c["stmts"] if st[0] != "latch"][:2] + [["sig", "r0", ["read", "m"]], ["sig", "r1", ["proj", ["cmp", ">", ["read", "m"], K(0)], "signal-X"]]] + [st for st in c["stmts"] if st[0] == "latch"]
        progs.append(c)
        c = _latch_prog(f"qfixed-{order}-read-before-write-v5", K(5), ["cmp", ">", T, K(10)], ["cmp", ">", U, K(10)], order, ["t", "u"], fam="fixed")
        c["stmts"] = [st for st in c["stmts"] if st[0] != "latch"][:3] + [["sig", "r0", ["read", "m"]], ["sig", "r1", ["proj", ["cmp", ">", ["read", "m"], K(0)], "signal-X"]]] + [st for st in c["stmts"] if st[0] == "latch"]
        progs.append(c)
        progs.append(_latch_prog(f"qfixed-{order}-item-type", K(1), ["cmp", "<", T, K(20)], ["cmp", ">=", T, K(80)], order, ["t"], mtype="iron-plate", fam="fixed"))
    return progs


def fam_latch(index):
    rnd = random.Random(f"latch-{index}")
    order = rnd.choice(["sr", "rs"])
    T, U = V("t"), V("u")
    shape = rnd.choice(["shared", "shared", "two", "bool"])
    val = rnd.choice([K(1), K(1), K(rnd.choice([2, 5, 100, -1])), ["proj", V("v"), "signal-L"]])
    ins = []
    bools = ()
    if rnd.random() < 0.35:  # let set and/or reset travel on the cell's own signal type
        T = V("cl")
        U = V("cl2") if rnd.random() < 0.5 else U
    if shape == "shared":
        st = ["cmp", rnd.choice(CMPS), T, K(rnd.choice([-5, 0, 10, 20, 50]))]
        rs = ["cmp", rnd.choice(CMPS), T, K(rnd.choice([0, 30, 50, 80, 100]))]
        ins = [T[1]]
    elif shape == "two":
        st = ["cmp", rnd.choice(CMPS), T, K(rnd.choice([0, 10, 50]))]
        rs = ["cmp", rnd.choice(CMPS), U, K(rnd.choice([0, 10, 50]))]
        ins = [T[1], U[1]] if T[1] != U[1] else [T[1]]
    else:
        st, rs = V("s"), V("r")
        ins = ["s", "r"]
        bools = ("s", "r")
    if val[0] == "proj":
        ins.append("v")
    return _latch_prog(f"latch-{index:04d}", val, st, rs, order, ins, mtype=rnd.choice(["signal-L", "signal-L", "signal-P"]) if val[0] != "proj" else "signal-L", bools=bools)


def corpus_c05(tier):
    n = 16 if tier == "quick" else 120
    fixed = fam_latch_fixed()
    return fixed + [fam_latch(i) for i in range(n)]


# ======================================================================================
#  C06 entities driven by conditions
# ======================================================================================

E_INPUTS = [("a", "signal-A", 10007), ("b", "signal-B", 10009), ("c", "iron-plate", 10037)]
ENABLE_PROTOS = ["small-lamp", "inserter", "transport-belt", "pump", "power-switch", "train-stop", "assembling-machine-1", "fast-inserter", "offshore-pump"]


def _ent_prog(name, body, fam="entity", inputs=E_INPUTS):
    return {"id": name, "family": fam, "stmts": [["input", n, t, d] for (n, t, d) in inputs] + body, "kind": "stateless"}


def fam_entity_fixed():
    A, B, C = V("a"), V("b"), V("c")
    progs = []

    def lamp(i, x=None, y=0, proto="small-lamp"):
        return ["place", f"e{i}", proto, K(x if x is not None else 3 * i), K(y), None]

    conds = {
        "plain": A,
        "gt": ["cmp", ">", A, K(10)],
        "le": ["cmp", "<=", A, K(-3)],
        "eq": ["cmp", "==", C, K(7)],
        "ne": ["cmp", "!=", A, K(0)],
        "sigsig": ["cmp", ">", A, B],
        "sum": ["cmp", ">", ["bin", "+", A, B], K(10)],
        "and": ["and", ["cmp", ">", A, K(0)], ["cmp", "<", B, K(9)]],
        "or": ["or", ["cmp", ">", A, K(0)], ["cmp", "<", B, K(9)]],
        "arith": ["bin", "-", A, K(5)],
        "mod": ["cmp", "<", ["bin", "%", A, K(10)], K(5)],
        "not": ["not", A],
        "proj": ["proj", ["cmp", ">=", A, K(3)], "signal-X"],
    }
    for nm, cond in conds.items():
        progs.append(_ent_prog(f"efixed-lamp-{nm}", [lamp(0), ["enable", "e0", cond]], fam="fixed"))
    for proto in ENABLE_PROTOS:
        progs.append(_ent_prog(f"efixed-{proto}-gt", [["place", "e0", proto, K(0), K(0), None], ["enable", "e0", ["cmp", ">", A, K(10)]]], fam="fixed"))
        progs.append(_ent_prog(f"efixed-{proto}-expr", [["place", "e0", proto, K(-4), K(2), None], ["enable", "e0", ["cmp", ">", ["bin", "+", A, B], K(10)]]], fam="fixed"))
    # boolean algebra in enables: every pairing of a 0/1 producer with a plain (possibly negative) signal
    shapes6 = {"cmp": ["cmp", ">", A, K(3)], "sig": B, "sigitem": C, "neg": ["neg", B], "arith": ["bin", "-", B, K(3)], "not": ["not", B], "cmp2": ["cmp", "<", B, K(0)]}
    for ln, le in shapes6.items():
        for rn, re_ in shapes6.items():
            if ln == rn:
                continue
            for opn in ("and", "or"):
                progs.append(_ent_prog(f"efixed-bool-{opn}-{ln}-{rn}", [lamp(0), ["enable", "e0", [opn, le, re_]]], fam="fixed"))
    # AND chain and OR chain over the SAME comparisons in one program
    progs.append(_ent_prog("efixed-and-and-or-same-cmps", [lamp(0), lamp(1), ["enable", "e0", ["and", ["cmp", ">", A, K(3)], ["cmp", ">", B, K(3)]]], ["enable", "e1", ["or", ["cmp", ">", A, K(3)], ["cmp", ">", B, K(3)]]]], fam="fixed"))
    progs.append(_ent_prog("efixed-or-then-and-same-cmps", [lamp(0), lamp(1), ["enable", "e0", ["or", ["cmp", "<", A, K(0)], ["cmp", "==", B, K(7)]]], ["enable", "e1", ["and", ["cmp", "<", A, K(0)], ["cmp", "==", B, K(7)]]]], fam="fixed"))
    progs.append(_ent_prog("efixed-three-chains", [lamp(0), lamp(1), lamp(2), ["enable", "e0", ["and", ["cmp", ">", A, K(3)], ["and", ["cmp", ">", B, K(3)], ["cmp", ">", C, K(3)]]]], ["enable", "e1", ["or", ["cmp", ">", A, K(3)], ["or", ["cmp", ">", B, K(3)], ["cmp", ">", C, K(3)]]]], ["enable", "e2", ["or", ["and", ["cmp", ">", A, K(3)], ["cmp", ">", B, K(3)]], ["cmp", ">", C, K(3)]]]], fam="fixed"))
    # two producers of the same kind and signal, each driving far-apart entities (relays needed)
    din = [("a", "signal-A", 10007), ("b", "signal-B", 10009), ("c", "iron-plate", 10037), ("d", "signal-A", 10039)]
    for dist in (24, 30):
        progs.append(dict(_ent_prog(f"efixed-two-inputs-far-{dist}-poles", [["place", "p0", "small-lamp", K(0), K(0), None], ["place", "p1", "small-lamp", K(dist), K(0), None], ["place", "q0", "small-lamp", K(0), K(2), None], ["place", "q1", "small-lamp", K(dist), K(2), None],
                                                                 ["enable", "p0", ["cmp", ">", A, K(3)]], ["enable", "p1", ["cmp", ">", A, K(3)]], ["enable", "q0", ["cmp", ">", V("d"), K(3)]], ["enable", "q1", ["cmp", ">", V("d"), K(3)]]], fam="fixed", inputs=din),
                          params={"builds": [{"tag": "opt+medium", "optimize": True, "poles": "medium"}, {"tag": "noopt+substation", "optimize": False, "poles": "substation"}]}))
        progs.append(_ent_prog(f"efixed-two-inputs-far-{dist}", [["place", "p0", "small-lamp", K(0), K(0), None], ["place", "p1", "small-lamp", K(dist), K(0), None], ["place", "q0", "small-lamp", K(0), K(1), None], ["place", "q1", "small-lamp", K(dist), K(1), None],
                                                                 ["enable", "p0", ["cmp", ">", A, K(3)]], ["enable", "p1", ["cmp", ">", A, K(3)]], ["enable", "q0", ["cmp", ">", V("d"), K(3)]], ["enable", "q1", ["cmp", ">", V("d"), K(3)]]], fam="fixed", inputs=din))
    progs.append(_ent_prog("efixed-two-computed-far", [["sig", "x1", ["bin", "*", A, K(2)]], ["sig", "x2", ["bin", "*", V("d"), K(3)]], ["place", "p0", "small-lamp", K(0), K(0), None], ["place", "p1", "small-lamp", K(28), K(0), None], ["place", "q0", "small-lamp", K(0), K(2), None], ["place", "q1", "small-lamp", K(28), K(2), None],
                                                       ["enable", "p0", ["cmp", ">", V("x1"), K(3)]], ["enable", "p1", ["cmp", ">", V("x1"), K(5)]], ["enable", "q0", ["cmp", ">", V("x2"), K(3)]], ["enable", "q1", ["cmp", ">", V("x2"), K(5)]]], fam="fixed", inputs=din))
    # `cond : value` assigned to enable (value signal / positive / negative / zero constant)
    for nm, val in (("sig", B), ("sigitem", C), ("k1", K(1)), ("k5", K(5)), ("kneg", K(-1)), ("k0", K(0)), ("expr", ["bin", "-", B, K(2)])):
        progs.append(_ent_prog(f"efixed-cond-{nm}", [lamp(0), ["enable", "e0", ["cond", ["cmp", ">", A, K(3)], val]]], fam="fixed"))
        progs.append(_ent_prog(f"efixed-cond-inserter-{nm}", [["place", "e0", "inserter", K(0), K(0), None], ["enable", "e0", ["cond", ["cmp", "<=", A, B], val]]], fam="fixed"))
    # the constant of an (inlinable) comparison supplied in every syntactic form
    chest0 = ["place", "ch", "steel-chest", K(0), K(3), None]
    forms = {
        "lit": ([], K(5)),
        "intvar": ([["int", "lim", K(5)]], V("lim")),
        "intvar-computed": ([["int", "lim", ["bin", "+", K(2), K(3)]]], V("lim")),
        "intvar-chain": ([["int", "base", K(2)], ["int", "lim", ["bin", "+", ["bin", "*", V("base"), K(2)], K(1)]]], V("lim")),
        "expr": ([], ["bin", "+", K(2), K(3)]),
        "neg": ([["int", "lim", ["bin", "-", K(0), K(5)]]], V("lim")),
    }
    for fn, (pre, kexpr) in forms.items():
        progs.append(_ent_prog(f"efixed-const-{fn}-gt", pre + [lamp(0), ["enable", "e0", ["cmp", ">", A, kexpr]]], fam="fixed"))
        progs.append(_ent_prog(f"efixed-const-{fn}-any", pre + [chest0, ["bun", "co", ["out", "ch"]], lamp(0), ["enable", "e0", ["cmp", ">", ["any", V("co")], kexpr]]], fam="fixed"))
        progs.append(_ent_prog(f"efixed-const-{fn}-all", pre + [chest0, ["bun", "co", ["out", "ch"]], lamp(0), ["enable", "e0", ["cmp", ">=", ["all", V("co")], kexpr]]], fam="fixed"))
        itemb = ["bun", "ib", ["bundle", [C, V("p")]]]
        pin = [("a", "signal-A", 10007), ("b", "signal-B", 10009), ("c", "iron-plate", 10037), ("p", "copper-plate", 10069)]
        progs.append(_ent_prog(f"efixed-const-{fn}-any-gt-items", pre + [itemb, lamp(0), ["enable", "e0", ["cmp", ">", ["any", V("ib")], kexpr]]], fam="fixed", inputs=pin))
        progs.append(_ent_prog(f"efixed-const-{fn}-all-ge-items", pre + [itemb, lamp(0), ["enable", "e0", ["cmp", ">=", ["all", V("ib")], kexpr]]], fam="fixed", inputs=pin))
        progs.append(_ent_prog(f"efixed-const-{fn}-any-lt", pre + [["bun", "bb", ["bundle", [A, C]]], lamp(0), ["enable", "e0", ["cmp", "<", ["any", V("bb")], kexpr]]], fam="fixed"))
    progs.append(_ent_prog("efixed-const-iter-any", [chest0, ["bun", "co", ["out", "ch"]], ["for", "i", ["range", 2, 5, None], [["place", "l", "small-lamp", V("i"), K(0), None], ["enable", "l", ["cmp", ">", ["any", V("co")], V("i")]]]]], fam="fixed"))
    progs.append(_ent_prog("efixed-const-param-any", [chest0, ["bun", "co", ["out", "ch"]], ["func", "ctl", [["Entity", "e"], ["int", "k"]], [["enable", "e", ["cmp", ">", ["all", V("co")], V("k")]]], V("k")], lamp(0), ["int", "z", ["call", "ctl", [V("e0"), ["bin", "+", K(2), K(3)]]]]], fam="fixed"))
    # `!` directly on every condition shape: scalar, signal-signal, quantified over an input bundle / a chest, compound
    bb = ["bun", "bb", ["bundle", [A, C]]]
    for op in CMPS:
        progs.append(_ent_prog(f"efixed-not-cmpk-{op}", [lamp(0), ["enable", "e0", ["not", ["cmp", op, A, K(5)]]]], fam="fixed"))
        progs.append(_ent_prog(f"efixed-not-cmps-{op}", [lamp(0), ["enable", "e0", ["not", ["cmp", op, A, B]]]], fam="fixed"))
        progs.append(_ent_prog(f"efixed-not-any-{op}", [bb, lamp(0), ["enable", "e0", ["not", ["cmp", op, ["any", V("bb")], K(5)]]]], fam="fixed"))
        progs.append(_ent_prog(f"efixed-not-all-{op}", [bb, lamp(0), ["enable", "e0", ["not", ["cmp", op, ["all", V("bb")], K(5)]]]], fam="fixed"))
        progs.append(_ent_prog(f"efixed-not-chest-any-{op}", [chest0, ["bun", "co", ["out", "ch"]], lamp(0), ["enable", "e0", ["not", ["cmp", op, ["any", V("co")], K(10)]]]], fam="fixed"))
        progs.append(_ent_prog(f"efixed-not-chest-all-{op}", [chest0, ["bun", "co", ["out", "ch"]], lamp(0), ["enable", "e0", ["not", ["cmp", op, ["all", V("co")], K(10)]]]], fam="fixed"))
    progs.append(_ent_prog("efixed-not-named-any", [bb, ["sig", "n", ["not", ["cmp", ">", ["any", V("bb")], K(5)]]], lamp(0), ["enable", "e0", V("n")], ["sig", "o", ["proj", ["bin", "*", V("n"), K(7)], "signal-X"]]], fam="fixed"))
    progs.append(_ent_prog("efixed-not-and", [lamp(0), ["enable", "e0", ["not", ["and", ["cmp", ">", A, K(0)], ["cmp", "<", B, K(9)]]]]], fam="fixed"))
    progs.append(_ent_prog("efixed-not-or", [lamp(0), ["enable", "e0", ["not", ["or", ["cmp", ">", A, K(0)], ["cmp", "<", B, K(9)]]]]], fam="fixed"))
    progs.append(_ent_prog("efixed-not-not", [lamp(0), ["enable", "e0", ["not", ["not", ["cmp", ">", A, K(5)]]]]], fam="fixed"))
    progs.append(_ent_prog("efixed-not-arith", [lamp(0), ["enable", "e0", ["not", ["bin", "-", A, K(5)]]]], fam="fixed"))
    # shared sources, several entities
    progs.append(_ent_prog("efixed-shared-decider", [["sig", "f", ["cmp", ">", A, K(10)]], lamp(0), lamp(1), ["enable", "e0", V("f")], ["enable", "e1", V("f")]], fam="fixed"))
    progs.append(_ent_prog("efixed-shared-decider-other-use", [["sig", "f", ["cmp", ">", A, K(10)]], lamp(0), ["enable", "e0", V("f")], ["sig", "o", ["proj", ["bin", "+", V("f"), B], "signal-X"]]], fam="fixed"))
    progs.append(_ent_prog("efixed-row", [lamp(i, x=i) for i in range(5)] + [["enable", f"e{i}", ["cmp", ">", A, K(i * 2)]] for i in range(5)], fam="fixed"))
    progs.append(_ent_prog("efixed-row-expr", [lamp(i, x=2 * i) for i in range(4)] + [["enable", f"e{i}", ["cmp", ">=", ["bin", "*", A, K(2)], K(i)]] for i in range(4)], fam="fixed"))
    progs.append(_ent_prog("efixed-two-conds-same-signal", [lamp(0), lamp(1), ["enable", "e0", ["cmp", ">", A, K(10)]], ["enable", "e1", ["cmp", "<", A, K(5)]]], fam="fixed"))
    progs.append(_ent_prog("efixed-const-true", [lamp(0), ["enable", "e0", K(1)], lamp(1), ["enable", "e1", ["cmp", ">", A, K(1)]]], fam="fixed"))
    # entity outputs (.output)
    chest = ["place", "ch", "steel-chest", K(0), K(3), None]
    tank = ["place", "tk", "storage-tank", K(4), K(3), None]
    progs.append(_ent_prog("efixed-chest-all", [chest, ["bun", "co", ["out", "ch"]], lamp(0), ["enable", "e0", ["cmp", ">", ["all", V("co")], K(100)]]], fam="fixed"))
    progs.append(_ent_prog("efixed-chest-any", [chest, ["bun", "co", ["out", "ch"]], lamp(0), ["enable", "e0", ["cmp", "<", ["any", V("co")], K(5)]]], fam="fixed"))
    for op in CMPS:
        progs.append(_ent_prog(f"efixed-chest-all-{op}", [chest, ["bun", "co", ["out", "ch"]], lamp(0), ["enable", "e0", ["cmp", op, ["all", V("co")], K(10)]]], fam="fixed"))
        progs.append(_ent_prog(f"efixed-chest-any-{op}", [chest, ["bun", "co", ["out", "ch"]], lamp(0), ["enable", "e0", ["cmp", op, ["any", V("co")], K(10)]]], fam="fixed"))
    progs.append(_ent_prog("efixed-chest-sel", [chest, ["bun", "co", ["out", "ch"]], lamp(0), ["enable", "e0", ["cmp", ">", ["sel", V("co"), "iron-plate"], K(50)]]], fam="fixed"))
    progs.append(_ent_prog("efixed-chest-sel-plus-input", [chest, ["bun", "co", ["out", "ch"]], lamp(0), ["enable", "e0", ["cmp", ">", ["bin", "+", ["sel", V("co"), "iron-plate"], C], K(50)]]], fam="fixed"))
    progs.append(_ent_prog("efixed-chest-arith", [chest, ["bun", "co", ["out", "ch"]], ["bun", "dbl", ["bin", "*", V("co"), K(2)]]], fam="fixed"))
    progs.append(_ent_prog("efixed-chest-two-lamps", [chest, ["bun", "co", ["out", "ch"]], lamp(0), lamp(1), ["enable", "e0", ["cmp", ">", ["all", V("co")], K(10)]], ["enable", "e1", ["cmp", ">", ["any", V("co")], K(10)]]], fam="fixed"))
    progs.append(_ent_prog("efixed-two-chests-merge", [chest, ["place", "ch2", "steel-chest", K(2), K(3), None], ["bun", "both", ["bundle", [["out", "ch"], ["out", "ch2"]]]], ["bun", "r", ["bin", "+", V("both"), K(0)]]], fam="fixed"))
    progs.append(_ent_prog("efixed-loader-shape", [chest, ["place", "ch2", "steel-chest", K(2), K(3), None], ["place", "ch3", "steel-chest", K(4), K(3), None],
                                                   ["bun", "tot", ["bundle", [["out", "ch"], ["out", "ch2"], ["out", "ch3"]]]],
                                                   ["bun", "avg", ["bin", "/", V("tot"), K(3)]],
                                                   ["bun", "d1", ["bundle", [["bin", "*", ["out", "ch"], K(-1)], V("avg")]]],
                                                   ["place", "i1", "inserter", K(0), K(5), None], ["enable", "i1", ["cmp", ">", ["any", V("d1")], K(0)]]], fam="fixed"))
    progs.append(_ent_prog("efixed-tank", [tank, ["bun", "fl", ["out", "tk"]], ["place", "p0", "pump", K(0), K(0), None], ["enable", "p0", ["cmp", "<", ["sel", V("fl"), "water"], K(20000)]]], fam="fixed"))
    return progs


def fam_entity(index):
    rnd = random.Random(f"entity-{index}")
    g = ExprGen(rnd, ["a", "b", "c"])
    n = rnd.choice([1, 1, 2, 3])
    body = []
    shared = None
    if rnd.random() < 0.3:
        body.append(["sig", "f", g.cmp(1)])
        shared = V("f")
        g.names.append("f")
    for i in range(n):
        proto = rnd.choice(["small-lamp", "small-lamp", "inserter", "transport-belt", "assembling-machine-1", "train-stop"])
        body.append(["place", f"e{i}", proto, K(4 * i + rnd.choice([0, -8])), K(rnd.choice([0, 2, -3])), None])
        kind = rnd.choice(["inl", "inl", "sig", "expr", "expr", "shared"])
        if kind == "shared" and shared is not None:
            cond = shared
        elif kind == "inl":
            cond = ["cmp", rnd.choice(CMPS), g.leaf_sig(), K(rnd.choice(SMALL + [-2147483648, 2147483647]))]
            if rnd.random() < 0.3:
                cond = ["cond", cond, rnd.choice([g.leaf_sig(), K(rnd.choice([1, 2, -1, 0]))])]
        elif kind == "sig":
            cond = g.leaf_sig()
        else:
            cond = g.boolish(rnd.choice([1, 2]))
        body.append(["enable", f"e{i}", cond])
    if rnd.random() < 0.3:
        body.append(["sig", "o", ["proj", g.sig(1), "signal-X"]])
    return _ent_prog(f"entity-{index:04d}", body)


def corpus_c06(tier):
    n = 30 if tier == "quick" else 200
    return fam_entity_fixed() + [fam_entity(i) for i in range(n)]


# ======================================================================================
#  C20 naming / anchors
# ======================================================================================


def fam_naming_fixed():
    A, B, C = V("a"), V("b"), V("c")
    ins3 = [["input", "a", "signal-A", 10007], ["input", "b", "signal-B", 10009], ["input", "c", "iron-plate", 10037]]
    progs = []

    def add(name, body, ins=ins3):
        progs.append({"id": f"nfixed-{name}", "family": "fixed", "stmts": list(ins) + body, "kind": "stateless", "params": {"naming": True}})

    add("arith", [["sig", "o", ["bin", "+", A, B]]])
    add("decider", [["sig", "o", ["cmp", ">", A, K(3)]]])
    add("cond", [["sig", "o", ["cond", ["cmp", ">", A, K(3)], C]]])
    add("const", [["sig", "o", ["lit", "signal-X", K(42)]]])
    add("const-untyped", [["sig", "o", K(42)]])
    add("alias-input", [["sig", "o", A]])
    add("alias-chain", [["sig", "o", ["bin", "*", A, K(3)]], ["sig", "p", V("o")]])
    add("alias-two", [["sig", "m", ["bin", "*", A, K(3)]], ["sig", "p", V("m")], ["sig", "q", V("m")]])
    add("consumed", [["sig", "m", ["bin", "*", A, K(3)]], ["sig", "o", ["bin", "+", V("m"), B]]])
    add("consumed-and-not", [["sig", "m", ["bin", "*", A, K(3)]], ["sig", "o", ["bin", "+", V("m"), B]], ["sig", "p", ["bin", "-", A, B]]])
    add("cse-dup", [["sig", "p", ["bin", "*", A, K(3)]], ["sig", "q", ["bin", "*", A, K(3)]]])
    add("cse-dup-decider", [["sig", "p", ["cond", ["cmp", ">", A, K(0)], A]], ["sig", "q", ["cond", ["cmp", ">", A, K(0)], K(1)]]])
    add("cse-dup-3", [["sig", "p", ["bin", "+", A, B]], ["sig", "q", ["bin", "+", A, B]], ["sig", "r", ["proj", ["bin", "+", A, B], "signal-X"]]])
    add("wire-merge", [["sig", "o", ["bin", "+", A, V("d")]]], ins=ins3 + [["input", "d", "signal-A", 10039]])
    add("bundle", [["bun", "o", ["bundle", [A, C]]]])
    add("bundle-op", [["bun", "b0", ["bundle", [A, C]]], ["bun", "o", ["bin", "*", V("b0"), K(2)]]])
    add("bundle-const", [["bun", "o", ["bundle", [["lit", "signal-X", K(4)], ["lit", "coal", K(5)]]]]])
    add("unused-input", [["sig", "o", ["bin", "+", A, K(1)]]])
    add("func-ret", [["func", "f", [["Signal", "x"]], [], ["bin", "+", V("x"), K(1)]], ["sig", "o", ["call", "f", [A]]]])
    add("func-ret-two", [["func", "f", [["Signal", "x"]], [["sig", "t", ["bin", "*", V("x"), K(2)]]], ["bin", "+", V("t"), K(1)]], ["sig", "o", ["call", "f", [A]]], ["sig", "p", ["call", "f", [B]]]])
    add("func-consumes", [["func", "f", [["Signal", "x"]], [], ["bin", "+", V("x"), K(1)]], ["sig", "m", ["bin", "*", A, K(2)]], ["sig", "o", ["call", "f", [V("m")]]]])
    add("loop-consumes", [["sig", "m", ["bin", "*", A, K(2)]], ["for", "i", ["range", 0, 2, None], [["place", "l", "small-lamp", V("i"), K(0), None], ["enable", "l", ["cmp", ">", V("m"), V("i")]]]]])
    add("enable-consumes", [["sig", "m", ["bin", "*", A, K(2)]], ["place", "l", "small-lamp", K(0), K(0), None], ["enable", "l", ["cmp", ">", ["bin", "+", V("m"), B], K(4)]]])
    add("func-returns-named-local", [["sig", "sum", ["bin", "+", A, B]], ["func", "scale", [["Signal", "x"]], [["sig", "t", ["bin", "*", V("x"), K(3)]]], V("t")], ["sig", "out", ["call", "scale", [V("sum")]]]])
    add("func-returns-named-local-twice", [["func", "scale", [["Signal", "x"]], [["sig", "t", ["bin", "*", V("x"), K(3)]]], V("t")], ["sig", "o1", ["call", "scale", [A]]], ["sig", "o2", ["call", "scale", [B]]]])
    add("cse-first-second-result", [["sig", "first", ["bin", "+", A, B]], ["sig", "second", ["bin", "+", A, B]], ["sig", "result", ["bin", "*", V("second"), K(2)]]])
    add("param-named-like-alias", [["func", "double", [["Signal", "total"]], [], ["bin", "*", V("total"), K(2)]], ["sig", "sum", ["bin", "+", A, B]], ["sig", "total", V("sum")], ["sig", "big", ["call", "double", [V("sum")]]]])
    add("param-named-like-output", [["func", "inc", [["Signal", "o"]], [], ["bin", "+", V("o"), K(1)]], ["sig", "m", ["bin", "*", A, K(2)]], ["sig", "o", V("m")], ["sig", "r", ["proj", ["call", "inc", [V("m")]], "signal-X"]]])
    add("alias-of-consumed", [["sig", "sum", ["bin", "+", A, B]], ["sig", "also", V("sum")], ["sig", "big", ["proj", ["bin", "*", V("sum"), K(2)], "signal-X"]]])
    far = lambda x, y, n, c: [["place", n, "small-lamp", K(x), K(y), None], ["enable", n, c]]  # noqa: E731
    add("far-same-name-results", [["input", "d", "signal-A", 10039], ["sig", "xo", ["bin", "+", A, K(7)]], ["sig", "yo", ["bin", "-", V("d"), K(7)]]] + far(0, 0, "l1", ["cmp", ">", V("xo"), K(3)]) + far(40, 0, "l2", ["cmp", ">", V("xo"), K(5)]) + far(0, 2, "l3", ["cmp", ">", V("yo"), K(3)]) + far(40, 2, "l4", ["cmp", ">", V("yo"), K(5)])
        + [["sig", "xs", V("xo")], ["sig", "ys", V("yo")]])
    add("far-two-outputs", [["sig", "xo", ["proj", ["bin", "*", A, K(2)], "signal-X"]], ["sig", "yo", ["proj", ["bin", "*", B, K(3)], "signal-X"]]] + far(0, 0, "l1", ["cmp", ">", V("xo"), K(3)]) + far(36, 0, "l2", ["cmp", ">", V("xo"), K(5)]) + far(0, 1, "l3", ["cmp", ">", V("yo"), K(3)]) + far(36, 1, "l4", ["cmp", ">", V("yo"), K(5)])
        + [["sig", "xshown", V("xo")], ["sig", "yshown", V("yo")]])
    add("many", [["sig", f"o{i}", ["proj", ["bin", "+", A, K(i)], f"signal-{chr(ord('K') + i)}"]] for i in range(6)])
    add("int-not-output", [["int", "k", K(5)], ["sig", "o", ["bin", "*", A, V("k")]]])
    return progs


def corpus_c20(tier):
    n = 25 if tier == "quick" else 150
    cases = fam_naming_fixed()
    # the naming clauses on the hand-written shapes of the other families
    # thorough: all of them; quick: a sample that is stable when a family grows (hash of the id, not the position) -
    # tools/curate.py additionally keeps every case that was ever in the quick tier (corpus/pinned_C20.json)
    import zlib

    for fam, every_q in ((fam_expr_fixed(), 9), (fam_func_fixed(), 2), (fam_entity_fixed(), 12), (fam_loop16_fixed(), 6)):
        for j, c in enumerate(fam):
            if c.get("kind", "stateless") != "stateless" or (tier == "quick" and zlib.crc32(c["id"].encode()) % every_q):
                continue
            cases.append(dict(c, id="n" + c["id"], family="nother", params=dict(c.get("params", {}), naming=True)))
    for i in range(n):
        c = fam_expr(1000 + i)
        c = dict(c, id=f"nexpr-{i:04d}", params={"naming": True})
        cases.append(c)
    for i in range(n // 2):
        c = fam_bundle(1000 + i)
        c = dict(c, id=f"nbundle-{i:04d}", params={"naming": True})
        cases.append(c)
    return cases


# ======================================================================================
#  C10 optimisation on/off, C12 independence, C13 fresh signals (twins)
# ======================================================================================

OPT = {"tag": "opt", "optimize": True}
NOOPT = {"tag": "noopt", "optimize": False}


def _opt_pair(stmts):
    return [{"a": {"stmts": stmts, "build": OPT}, "b": {"stmts": stmts, "build": NOOPT}, "tag": "opt-vs-noopt"}]


def fam_opt_fixed():
    A, B, C = V("a"), V("b"), V("c")
    ins3 = [["input", "a", "signal-A", 10007], ["input", "b", "signal-B", 10009], ["input", "c", "iron-plate", 10037]]
    progs = []

    def add(name, body, ins=ins3, **params):
        progs.append({"id": f"ofixed-{name}", "family": "fixed", "kind": "equiv", "pairs": _opt_pair(list(ins) + body), "params": params})

    # repeated sub-expressions differing only in output mode / output type / operand order
    add("dup-same", [["sig", "p", ["proj", ["bin", "*", A, K(3)], "signal-X"]], ["sig", "q", ["proj", ["bin", "+", ["bin", "*", A, K(3)], B], "signal-Y"]]])
    add("dup-outtype", [["sig", "p", ["proj", ["bin", "*", A, K(3)], "signal-X"]], ["sig", "q", ["proj", ["bin", "*", A, K(3)], "signal-Y"]]])
    add("dup-operand-order", [["sig", "p", ["proj", ["bin", "-", A, B], "signal-X"]], ["sig", "q", ["proj", ["bin", "-", B, A], "signal-Y"]]])
    for op in ("-", "/", "%", "**", "<<", ">>"):
        rhs_a, rhs_b = (A, K(2)) if op in ("**", "<<", ">>") else (A, B)
        add(f"dup-order-{op}", [["sig", "p", ["proj", ["bin", op, rhs_a, rhs_b], "signal-X"]], ["sig", "q", ["proj", ["bin", op, rhs_b, rhs_a], "signal-X"]], ["sig", "s", ["proj", ["bin", "+", V("p"), ["proj", V("q"), "signal-Y"]], "signal-Z"]]])
        add(f"dup-order-same-out-{op}", [["sig", "p", ["bin", op, rhs_a, rhs_b]], ["sig", "q", ["bin", op, rhs_b, rhs_a]], ["sig", "s", ["proj", ["bin", "+", ["proj", V("p"), "signal-X"], ["proj", V("q"), "signal-Y"]], "signal-Z"]]])
    for op in ("+", "*", "AND", "OR", "XOR"):
        add(f"dup-commuted-{op}", [["sig", "p", ["proj", ["bin", op, A, B], "signal-X"]], ["sig", "q", ["proj", ["bin", op, B, A], "signal-X"]], ["sig", "s", ["proj", ["bin", "-", V("p"), ["proj", V("q"), "signal-Y"]], "signal-Z"]]])
    for nm, e in (("and-int", ["and", A, K(5)]), ("or-int", ["or", A, K(2)]), ("and-int0", ["and", A, K(0)]), ("or-int0", ["or", K(0), A]), ("and-cmp-int", ["and", ["cmp", ">", A, K(0)], K(3)]), ("not-and-int", ["not", ["and", A, K(5)]])):
        add(f"logic-{nm}", [["sig", "o", ["proj", e, "signal-X"]]])
    add("logic-int-var", [["int", "k", K(5)], ["sig", "o", ["proj", ["and", A, V("k")], "signal-X"]], ["sig", "p", ["proj", ["or", B, V("k")], "signal-Y"]]])
    add("logic-iterator", [["for", "i", ["range", 0, 3, None], [["place", "l", "small-lamp", V("i"), K(0), None], ["enable", "l", ["and", A, V("i")]]]]])
    for n in (2, 4, 6):
        body = [["sig", "m", ["bin", "*", A, K(3)]]]
        for i in range(n):
            body.append(["sig", f"y{i}", ["proj", ["bin", "+", V("m"), A] if i % 2 == 0 else ["bin", "-", V("m"), A], f"signal-{chr(ord('C') + i)}"]])
        add(f"fanout-same-type-{n}", body)
    add("fanout-same-type-mixed", [["sig", "m", ["bin", "*", A, K(3)]], ["sig", "n2", ["bin", "+", A, K(1)]]] + [["sig", f"y{i}", ["proj", ["bin", "+", V("m"), V("n2")] if i % 2 else ["bin", "+", V("m"), A], f"signal-{chr(ord('C') + i)}"]] for i in range(5)])
    add("dup-cond-mode", [["sig", "p", ["cond", ["cmp", ">", A, K(0)], A]], ["sig", "q", ["cond", ["cmp", ">", A, K(0)], K(1)]], ["sig", "s", ["proj", ["bin", "+", V("p"), V("q")], "signal-X"]]])
    add("dup-cond-value", [["sig", "p", ["cond", ["cmp", ">", A, K(0)], B]], ["sig", "q", ["cond", ["cmp", ">", A, K(0)], C]], ["sig", "s", ["proj", ["bin", "+", V("p"), ["proj", V("q"), "signal-B"]], "signal-X"]]])
    add("dup-cmp-const", [["sig", "p", ["proj", ["cmp", ">", A, K(5)], "signal-X"]], ["sig", "q", ["proj", ["cmp", ">", A, K(6)], "signal-Y"]]])
    add("dup-cmp-op", [["sig", "p", ["proj", ["cmp", ">", A, K(5)], "signal-X"]], ["sig", "q", ["proj", ["cmp", ">=", A, K(5)], "signal-Y"]]])
    add("dup-bundle-filter-mode", [["bun", "b0", ["bundle", [A, C]]], ["bun", "p", ["cond", ["cmp", ">", V("b0"), K(0)], V("b0")]], ["bun", "q", ["cond", ["cmp", ">", V("b0"), K(0)], K(1)]]])
    add("dup-bundle-filter-mode-consumed", [["bun", "b0", ["bundle", [A, C]]], ["bun", "p", ["cond", ["cmp", ">", V("b0"), K(0)], V("b0")]], ["bun", "q", ["cond", ["cmp", ">", V("b0"), K(0)], K(1)]], ["bun", "p2", ["bin", "*", V("p"), K(3)]], ["bun", "q2", ["bin", "*", V("q"), K(5)]]])
    add("dup-bundle-arith", [["bun", "b0", ["bundle", [A, C]]], ["bun", "p", ["bin", "*", V("b0"), K(2)]], ["bun", "q", ["bin", "*", V("b0"), K(2)]], ["bun", "r", ["bin", "+", V("q"), K(1)]]])
    add("dup-multi-cond", [["sig", "p", ["cond", ["and", ["cmp", ">", A, K(0)], ["cmp", "<", B, K(9)]], C]], ["sig", "q", ["cond", ["or", ["cmp", ">", A, K(0)], ["cmp", "<", B, K(9)]], C]], ["sig", "s", ["proj", ["bin", "-", V("p"), V("q")], "signal-X"]]])
    # folded values consumed by different consumer kinds
    add("fold-operand", [["sig", "o", ["proj", ["bin", "+", A, ["bin", "*", K(6), K(7)]], "signal-X"]]])
    add("fold-int-chain", [["int", "k", ["bin", "+", K(2), K(3)]], ["int", "j", ["bin", "*", V("k"), K(4)]], ["sig", "o", ["proj", ["bin", "-", A, V("j")], "signal-X"]]])
    add("fold-sig-consts", [["sig", "k1", ["lit", "signal-K", K(6)]], ["sig", "k2", ["lit", "signal-K", K(7)]], ["sig", "o", ["proj", ["bin", "+", ["bin", "*", V("k1"), K(2)], A], "signal-X"]]])
    add("fold-anon-const-arith", [["sig", "o", ["proj", ["bin", "+", ["bin", "*", ["lit", "signal-K", K(6)], K(7)], A], "signal-X"]]])
    add("fold-enable", [["place", "l", "small-lamp", K(0), K(0), None], ["enable", "l", ["cmp", ">", A, ["bin", "*", K(3), K(4)]]]])
    add("fold-enable-expr", [["place", "l", "small-lamp", K(0), K(0), None], ["enable", "l", ["cmp", ">", ["bin", "+", A, ["bin", "*", K(3), K(4)]], B]]])
    add("fold-cond-value", [["sig", "o", ["proj", ["bin", "+", ["cond", ["cmp", ">", A, K(0)], ["bin", "-", K(0), K(1)]], B], "signal-X"]]])
    add("fold-merge", [["sig", "o", ["bin", "+", ["lit", "signal-A", ["bin", "*", K(2), K(3)]], A]]])
    add("fold-when", [["mem", "m", "signal-M"], ["write", "m", ["proj", A, "signal-M"], ["cmp", ">", B, ["bin", "+", K(1), K(2)]]], ["sig", "r0", ["read", "m"]]], K=4)
    add("fold-when-const", [["mem", "m", "signal-M"], ["write", "m", ["proj", A, "signal-M"], ["cmp", ">", ["bin", "*", ["lit", "signal-K", K(2)], K(3)], B]], ["sig", "r0", ["read", "m"]]], K=4)
    add("fold-latch", [["mem", "m", "signal-L"], ["latch", "m", K(1), ["cmp", "<", A, ["bin", "*", K(4), K(5)]], ["cmp", ">=", A, ["bin", "*", K(8), K(10)]], "sr"], ["sig", "r0", ["read", "m"]]], K=4)
    add("fold-latch-value", [["mem", "m", "signal-L"], ["latch", "m", ["bin", "+", K(2), K(3)], ["cmp", "<", A, K(20)], ["cmp", ">=", A, K(80)], "sr"], ["sig", "r0", ["read", "m"]]], K=4)
    add("mem-basic", [["mem", "m", "signal-M"], ["write", "m", ["proj", ["bin", "*", A, K(2)], "signal-M"], ["cmp", ">", B, K(0)]], ["sig", "r0", ["read", "m"]], ["sig", "r1", ["proj", ["bin", "+", ["read", "m"], K(1)], "signal-X"]]], K=4)
    # fan-out 2..12 (spanning-tree wiring)
    for n in (2, 4, 8, 12):
        body = [["sig", "m", ["bin", "*", A, K(3)]]]
        for i in range(n):
            body.append(["sig", f"o{i}", ["proj", ["bin", "+", V("m"), K(i + 1)], f"signal-{chr(ord('C') + i)}"]])
        add(f"fanout-{n}", body)
    body = []
    for i in range(6):
        body += [["place", f"l{i}", "small-lamp", K(2 * i), K(0), None], ["enable", f"l{i}", ["cmp", ">", ["bin", "+", A, B], K(i)]]]
    add("fanout-lamps", body)
    body = [["sig", "m", ["bin", "+", A, B]]]
    for i in range(5):
        body += [["place", f"l{i}", "small-lamp", K(3 * i), K(0), None], ["enable", f"l{i}", ["cmp", ">", V("m"), K(i * 10)]]]
    add("fanout-shared-lamps", body)
    return progs


def corpus_c10(tier):
    cases = fam_opt_fixed()
    n = 25 if tier == "quick" else 150
    for i in range(n):
        c = fam_expr(2000 + i)
        cases.append({"id": f"oexpr-{i:04d}", "family": "oexpr", "kind": "equiv", "pairs": _opt_pair(c["stmts"])})
    for i in range(n // 2):
        c = fam_bundle(2000 + i)
        cases.append({"id": f"obundle-{i:04d}", "family": "obundle", "kind": "equiv", "pairs": _opt_pair(c["stmts"])})
    for i in range(n // 3):
        c = fam_entity(2000 + i)
        cases.append({"id": f"oentity-{i:04d}", "family": "oentity", "kind": "equiv", "pairs": _opt_pair(c["stmts"])})
    for i in range(n // 4):
        c = fam_mem(2000 + i)
        cases.append({"id": f"omem-{i:04d}", "family": "omem", "kind": "equiv", "pairs": _opt_pair(c["stmts"]), "params": {"K": 4}})
    # every hand-written shape of the other properties' fixed families, as an optimised / unoptimised pair
    import zlib

    def pairs_of(fam, prefix, quick_every):
        for j, c in enumerate(fam):
            if c.get("kind", "stateless") not in ("stateless",):
                continue
            if tier == "quick" and zlib.crc32(c["id"].encode()) % quick_every:  # stable under growth; earlier quick picks stay pinned (curate)
                continue
            cases.append({"id": f"{prefix}{c['id']}", "family": "ofixedother", "kind": "equiv", "pairs": _opt_pair(c["stmts"])})

    pairs_of(fam_expr_fixed(), "o", 5)
    pairs_of(fam_bundle_fixed(), "o", 12)
    pairs_of(fam_entity_fixed(), "o", 6)
    pairs_of(fam_naming_fixed(), "o", 3)
    pairs_of(fam_func_fixed(), "o", 3)
    pairs_of(fam_loop16_fixed(), "o", 4)
    # several cells (shared / repeated enables) and free-running loops: each build must satisfy the same reference
    for c in fam_mem_fixed():
        cases.append({"id": "o" + c["id"], "family": "omemfixed", "kind": "equiv", "pairs": _opt_pair(c["stmts"]), "params": {"K": 4}})
    for c in fam_loop_fixed():
        cases.append(dict(c, id="o" + c["id"], family="oloopfixed"))
    for i in range(n // 4):
        cases.append(dict(fam_loop(2000 + i), id=f"oloop-{i:04d}", family="oloop"))
    for i in range(n // 4):
        c = fam_latch(2000 + i)
        cases.append({"id": f"olatch-{i:04d}", "family": "olatch", "kind": "equiv", "pairs": _opt_pair(c["stmts"]), "params": {"K": 4, "bool_inputs": c["params"]["bool_inputs"]}})
    return cases


POLE_BUILDS = [{"tag": "opt+medium", "optimize": True, "poles": "medium"}, {"tag": "opt+small", "optimize": True, "poles": "small"}, {"tag": "noopt+substation", "optimize": False, "poles": "substation"}]


def _pq_case(cid, P, Q, rnd, limit, K=None, bools=(), dy=9, builds=(OPT, NOOPT), same_sentinels=False):
    from .gen import interleavings, rename_prog, shift_places

    Pn = rename_prog(P, "p_")
    Qn = shift_places(rename_prog(Q, "q_"), 0, dy)
    if not same_sentinels:
        Qn = [["input", s[1], s[2], s[3] + 2000] if s[0] == "input" else s for s in Qn]  # distinct sentinels
    pairs = []
    for bi, build in enumerate(builds):
        for ii, merged in enumerate(interleavings(Pn, Qn, limit, rnd)):
            pairs.append({"a": {"stmts": merged, "build": build, "label": f"PQ{ii}"}, "b": {"stmts": Pn, "build": build, "label": "P"}, "tag": f"{build['tag']}/i{ii}/P"})
            pairs.append({"a": {"stmts": merged, "build": build, "label": f"PQ{ii}"}, "b": {"stmts": Qn, "build": build, "label": "Q"}, "tag": f"{build['tag']}/i{ii}/Q"})
    params = {}
    if K:
        params["K"] = K
        params["bool_inputs"] = ["p_" + b for b in bools] + ["q_" + b for b in bools]
    return {"id": cid, "family": "pq", "kind": "equiv", "pairs": pairs, "params": params}


def corpus_c12(tier):
    limit = 3 if tier == "quick" else 6
    n = 12 if tier == "quick" else 50
    cases = []
    fx = {c["id"]: c for c in fam_expr_fixed()}
    pairs_fixed = [("fixed-op-+", "fixed-op-*"), ("fixed-cmp-<", "fixed-cond->="), ("fixed-reuse", "fixed-prec1"), ("fixed-clamp", "fixed-sel-pattern"), ("fixed-and", "fixed-multi-out"), ("fixed-same-type", "fixed-left-type")]
    for a, b in pairs_fixed:
        rnd = random.Random(f"pq-{a}-{b}")
        cases.append(_pq_case(f"pq-{a[6:]}-{b[6:]}", fx[a]["stmts"], fx[b]["stmts"], rnd, limit))
    # far-apart user entities: relays are needed, P's and Q's routes run side by side
    A, B = V("a"), V("b")
    ins2 = [["input", "a", "signal-A", 10007], ["input", "b", "signal-B", 10009]]
    for nm, xs in (("far20", (20, -20)), ("far35", (35, -12)), ("far-row", (14, 28, -14))):
        body = []
        for j, x in enumerate(xs):
            body += [["place", f"l{j}", "small-lamp", K(x), K(0), None], ["enable", f"l{j}", ["cmp", ">", ["bin", "+", A, B], K(j + 5)] if j % 2 else ["cmp", ">", A, K(j + 5)]]]
        body.append(["sig", "o", ["proj", ["bin", "-", A, B], "signal-X"]])
        rnd = random.Random(f"pq-{nm}")
        cases.append(_pq_case(f"pq-{nm}", ins2 + body, ins2 + body, rnd, 2, dy=1))
        cases.append(_pq_case(f"pq-{nm}-poles", ins2 + body, ins2 + body, rnd, 2, dy=2, builds=POLE_BUILDS))
    # plain computations driving two far-apart lamps each, rows 2 tiles apart (with and without pole grids)
    for nm, dist in (("two-lamps-18", 18), ("two-lamps-22", 22), ("two-lamps-30", 30)):
        def prog(k1, k2):
            return [["input", "a", "signal-A", 10007], ["sig", "x", ["bin", "*", V("a"), K(k1)]],
                    ["place", "l1", "small-lamp", K(0), K(0), None], ["place", "l2", "small-lamp", K(dist), K(0), None],
                    ["enable", "l1", ["cmp", ">", V("x"), K(5)]], ["enable", "l2", ["cmp", ">", V("x"), K(k2)]]]
        rnd = random.Random(f"pq-{nm}")
        cases.append(_pq_case(f"pq-{nm}", prog(2, 7), prog(3, 9), rnd, 2, dy=2))
        cases.append(_pq_case(f"pq-{nm}-poles", prog(2, 7), prog(3, 9), rnd, 2, dy=2, builds=POLE_BUILDS))
    # a source forced onto the green wire (both operands on one signal) that also fans out over a long distance
    Pg = [["input", "b", "signal-A", 10007], ["input", "c", "signal-A", 10009], ["sig", "y", ["bin", "*", V("b"), K(3)]], ["sig", "w", ["bin", "+", V("c"), K(1)]], ["sig", "z", ["bin", "*", V("y"), V("w")]],
          ["place", "m1", "small-lamp", K(0), K(0), None], ["place", "m2", "small-lamp", K(30), K(0), None], ["enable", "m1", ["cmp", ">", V("y"), K(5)]], ["enable", "m2", ["cmp", ">", V("y"), K(7)]],
          ["place", "n1", "small-lamp", K(0), K(2), None], ["place", "n2", "small-lamp", K(30), K(2), None], ["enable", "n1", ["cmp", ">", V("w"), K(5)]], ["enable", "n2", ["cmp", ">", V("w"), K(7)]]]
    Qg = [["input", "a", "signal-A", 10007], ["sig", "x", ["bin", "*", V("a"), K(2)]], ["place", "l1", "small-lamp", K(0), K(4), None], ["place", "l2", "small-lamp", K(30), K(4), None], ["enable", "l1", ["cmp", ">", V("x"), K(5)]], ["enable", "l2", ["cmp", ">", V("x"), K(7)]]]
    cases.append(_pq_case("pq-green-fanout", Pg, Qg, random.Random("pq-green"), 3, dy=0))
    cases.append(_pq_case("pq-green-fanout-poles", Pg, Qg, random.Random("pq-green"), 2, dy=0, builds=POLE_BUILDS[:2]))
    # the same inline typed literal used as an operand in two independent computations
    def litprog(k, mul):
        return [["input", "a", "signal-A", 10007], ["sig", "x", ["bin", "*", V("a"), ["lit", "signal-B", K(k)]]], ["sig", "y", ["proj", ["bin", "*", ["bin", "+", V("a"), ["lit", "signal-A", K(10)]], K(mul)], "signal-X"]]]
    cases.append(_pq_case("pq-same-inline-literal", litprog(3, 2), litprog(3, 2), random.Random("pq-lit"), 3))
    cases.append(_pq_case("pq-same-inline-literal-2", litprog(3, 2), litprog(3, 5), random.Random("pq-lit2"), 2, same_sentinels=True))
    # round 4: both programs keep a cell on the SAME explicit signal and compute the same expression over their own read
    def memtwin(step, mul, gated):
        w = ["write", "m", ["proj", V("a"), "signal-A"], ["cmp", ">", V("b"), K(0)]] if gated else ["write", "m", ["bin", "%", ["bin", "+", ["read", "m"], K(step)], K(10)], None]
        return [["input", "a", "signal-A", 10007], ["input", "b", "signal-B", 10009], ["mem", "m", "signal-A"], w, ["sig", "o", ["proj", ["bin", "*", ["read", "m"], K(mul)], "signal-X"]], ["sig", "t", ["proj", ["cmp", ">", ["read", "m"], K(4)], "signal-Y"]]]
    cases.append(_pq_case("pq-memtwin-counter", memtwin(1, 2, False), memtwin(1, 2, False), random.Random("pq-memtwin1"), 2, K=3, same_sentinels=True))
    cases.append(_pq_case("pq-memtwin-counter-step", memtwin(1, 2, False), memtwin(3, 2, False), random.Random("pq-memtwin2"), 2, K=3, same_sentinels=True))
    cases.append(_pq_case("pq-memtwin-gated", memtwin(1, 2, True), memtwin(1, 2, True), random.Random("pq-memtwin3"), 2, K=3))
    cases.append(_pq_case("pq-memtwin-gated-counter", memtwin(1, 2, True), memtwin(1, 2, False), random.Random("pq-memtwin4"), 2, K=3))
    step = 6 if tier == "quick" else 2
    for j, c in enumerate(fam_expr_fixed()):
        if j % step == 0 and c["id"] not in ("fixed-many",):
            cases.append(_pq_case(f"pq-twin-{c['id'][6:]}", c["stmts"], c["stmts"], random.Random(f"pq-twin-{j}"), 2, same_sentinels=True, builds=(OPT,)))
    # P and Q textually the same program with the SAME declared input values (only the names differ)
    for a in ("fixed-op-*", "fixed-opk-+", "fixed-reuse", "fixed-cond->", "fixed-cmp-<", "fixed-int-var", "fixed-multi-out", "fixed-sel-pattern"):
        rnd = random.Random(f"pq-same-{a}")
        cases.append(_pq_case(f"pq-same-{a[6:]}", fx[a]["stmts"], fx[a]["stmts"], rnd, 2, same_sentinels=True))
    for i in range(n):
        rnd = random.Random(f"pq-{i}")
        kind = rnd.choice(["ee", "ee", "eb", "en", "bb", "nn"])
        pick = {"e": lambda j: fam_expr(3000 + j), "b": lambda j: fam_bundle(3000 + j), "n": lambda j: fam_entity(3000 + j)}
        P = pick[kind[0]](2 * i)["stmts"]
        Q = pick[kind[1]](2 * i + 1)["stmts"]
        cases.append(_pq_case(f"pq-{i:04d}", P, Q, rnd, limit))
    # k-tuples: P, Q, R together vs each alone
    from .gen import rename_prog, shift_places

    for ti, (a, b, c3) in enumerate((("fixed-op-+", "fixed-cond->=", "fixed-reuse"), ("fixed-same-type", "fixed-clamp", "fixed-int-var"))):
        Pn, Qn, Rn = rename_prog(fx[a]["stmts"], "p_"), rename_prog(fx[b]["stmts"], "q_"), rename_prog(fx[c3]["stmts"], "r_")
        Qn = [["input", s_[1], s_[2], s_[3] + 2000] if s_[0] == "input" else s_ for s_ in Qn]
        Rn = [["input", s_[1], s_[2], s_[3] + 4000] if s_[0] == "input" else s_ for s_ in Rn]
        merged = [Pn + Qn + Rn, Rn + Pn + Qn, [x for t in zip(Pn, Qn, Rn) for x in t] + Pn[min(len(Pn), len(Qn), len(Rn)):] + Qn[min(len(Pn), len(Qn), len(Rn)):] + Rn[min(len(Pn), len(Qn), len(Rn)):]]
        pairs = []
        for build in (OPT, NOOPT):
            for mi, m in enumerate(merged):
                for lab, alone in (("P", Pn), ("Q", Qn), ("R", Rn)):
                    pairs.append({"a": {"stmts": m, "build": build, "label": f"PQR{mi}"}, "b": {"stmts": alone, "build": build, "label": lab}, "tag": f"{build['tag']}/m{mi}/{lab}"})
        cases.append({"id": f"pqr-{ti}", "family": "pq", "kind": "equiv", "pairs": pairs, "params": {}})
    for i in range(max(2, n // 6)):
        rnd = random.Random(f"pqm-{i}")
        P = fam_mem(3000 + 2 * i)["stmts"]
        Q = fam_mem(3001 + 2 * i)["stmts"]
        c = _pq_case(f"pqmem-{i:04d}", P, Q, rnd, 2, K=3)
        cases.append(c)
    return cases


# ======================================================================================
#  C13 fresh signals
# ======================================================================================

FRESH_TYPES = ["signal-heart", "signal-star", "signal-check", "signal-deny", "signal-alert", "signal-pink", "signal-cyan", "signal-grey"]


def _fresh_twin(stmts, twin_proj=()):
    """give every untyped declared input (and every named compiler-typed value listed in twin_proj) a fresh, otherwise
    unused explicit type"""
    out, i = [], 0
    for s in stmts:
        if s[0] == "input" and s[2] is None:
            out.append(["input", s[1], FRESH_TYPES[i % len(FRESH_TYPES)] if i < len(FRESH_TYPES) else f"signal-{i % 10}", s[3]])
            i += 1
        elif s[0] == "sig" and s[1] in twin_proj:
            out.append(["sig", s[1], ["proj", s[2], FRESH_TYPES[i % len(FRESH_TYPES)]]])
            i += 1
        else:
            out.append(s)
    return out


def _fresh_case(cid, stmts, fam="fresh", twin_proj=()):
    pairs = []
    for b in (OPT, NOOPT):
        pairs.append({"a": {"stmts": stmts, "build": b, "label": "untyped"}, "b": {"stmts": _fresh_twin(stmts, twin_proj), "build": b, "label": "renamed"}, "tag": f"{b['tag']}/rename"})
    return {"id": cid, "family": fam, "stmts": stmts, "kind": "fresh", "pairs": pairs}


def fam_fresh_fixed():
    U, W2 = V("u"), V("u2")
    progs = []

    def add(name, ins, body):
        progs.append(_fresh_case(f"ffixed-{name}", [["input"] + list(i) for i in ins] + body, fam="fixed"))

    un = [("u", None, 10061), ("u2", None, 10067)]
    for nm, ex in (("late", [("x", "signal-S", 10007), ("y", "signal-T", 10009)]), ("first-letters", [("x", "signal-A", 10007), ("y", "signal-B", 10009)]), ("digits", [("x", "signal-0", 10007), ("y", "signal-1", 10009)]), ("items", [("x", "iron-plate", 10007), ("y", "water", 10009)])):
        X, Y = V("x"), V("y")
        add(f"{nm}-arith", ex + un, [["sig", "o", ["proj", ["bin", "+", ["bin", "*", U, X], W2], "signal-X"]], ["sig", "p", ["proj", ["bin", "-", Y, U], "signal-Y"]]])
        add(f"{nm}-cmp", ex + un, [["sig", "o", ["proj", ["cond", ["cmp", ">", U, X], Y], "signal-X"]], ["sig", "p", ["proj", ["cmp", "<", W2, Y], "signal-Y"]]])
        add(f"{nm}-enable", ex + un, [["place", "l", "small-lamp", K(0), K(0), None], ["enable", "l", ["cmp", ">", ["bin", "+", U, X], K(5)]], ["place", "l2", "small-lamp", K(2), K(0), None], ["enable", "l2", ["cmp", ">", U, K(7)]]])
        # conditional copies: untyped condition / explicit value and the reverse, every pairing (name coincidences on the copy stage)
        for cn, cv in (("u", U), ("u2", W2)):
            for vn, vv in (("x", X), ("y", Y)):
                add(f"{nm}-condcopy-{cn}-{vn}", ex + un, [["sig", "r", ["cond", ["cmp", ">", cv, K(2)], vv]], ["sig", "o", ["proj", ["bin", "+", V("r"), K(0)], "signal-X"]], ["sig", "chk", ["proj", ["bin", "-", vv, cv], "signal-Y"]]])
                add(f"{nm}-condcopy-{vn}-{cn}", ex + un, [["sig", "r", ["cond", ["cmp", ">", vv, K(2)], cv]], ["sig", "o", ["proj", ["bin", "+", V("r"), K(0)], "signal-X"]]])
        add(f"{nm}-condcopy-named-cmp", ex + un, [["sig", "cc", ["cmp", ">", U, K(2)]], ["sig", "r", ["cond", V("cc"), X]], ["sig", "r2", ["cond", V("cc"), Y]], ["sig", "o", ["proj", ["bin", "+", V("r"), V("r2")], "signal-X"]]])
        add(f"{nm}-mix-reuse", ex + un, [["sig", "m", ["bin", "+", U, K(1)]], ["sig", "o", ["proj", ["bin", "*", V("m"), X], "signal-X"]], ["sig", "p", ["proj", ["bin", "+", V("m"), W2], "signal-Y"]]])
    # many untyped values (more than the 26 letters)
    for n in (10, 27, 37, 45):
        ins = [(f"u{i}", None, 10100 + 7 * i) for i in range(n)] + [("x", "signal-S", 10007)]
        body = []
        acc = V("x")
        for i in range(n):
            acc = ["bin", "+", acc, V(f"u{i}")] if i % 2 == 0 else ["bin", "-", acc, V(f"u{i}")]
            if i % 6 == 5:
                body.append(["sig", f"s{i}", ["proj", acc, "signal-S"]])
                acc = V(f"s{i}")
        body.append(["sig", "o", ["proj", acc, "signal-X"]])
        add(f"many-{n}", ins, body)
    return progs


def fam_fresh_stateful():
    """untyped values in memories, latches and bundle operations (renamed twin must agree)"""
    progs = []

    def add(name, ins, body, **params):
        c = _fresh_case(f"ffixed-{name}", [["input"] + list(i) for i in ins] + body, fam="fixed")
        c["params"] = params
        progs.append(c)

    U, U2 = V("u"), V("u2")
    un = [("u", None, 10061), ("u2", None, 10067)]
    ex = [("x", "signal-S", 10007)]
    # compiler-typed RESULTS (comparisons / conditional constants on an item signal): the same expression twice, the second
    # occurrence consumed by an untyped memory, an entity condition, arithmetic, a conditional copy
    it = [("c", "iron-plate", 10007), ("g", "signal-G", 10009)]
    C_, G_ = V("c"), V("g")

    def addp(name, ins, body, tp, **params):
        c = _fresh_case(f"ffixed-{name}", [["input"] + list(i) for i in ins] + body, fam="fixed", twin_proj=tp)
        c["params"] = params
        progs.append(c)

    for dn, dup in (("cmp", lambda: ["cmp", ">", C_, K(5)]), ("condk", lambda: ["cond", ["cmp", ">", C_, K(5)], K(1)]), ("intleft", lambda: ["cmp", "<", K(5), C_])):
        head = [["sig", "hi", dup()], ["sig", "big", ["proj", ["bin", "*", V("hi"), K(100)], "signal-X"]], ["sig", "again", dup()]]
        addp(f"dup-{dn}-untyped-mem", it, head + [["mem", "seen", None], ["write", "seen", V("again"), ["cmp", ">", G_, K(0)]], ["sig", "o", ["proj", ["bin", "+", ["read", "seen"], K(0)], "signal-Y"]]], ("hi", "again"), K=3)
        addp(f"dup-{dn}-enable", it, head + [["place", "l", "small-lamp", K(0), K(0), None], ["enable", "l", V("again")]], ("hi", "again"))
        addp(f"dup-{dn}-arith", it, head + [["sig", "o", ["proj", ["bin", "+", V("again"), G_], "signal-Y"]]], ("hi", "again"))
        addp(f"dup-{dn}-condcopy", it, head + [["sig", "o", ["proj", ["cond", V("again"), G_], "signal-Y"]]], ("hi", "again"))
        addp(f"dup-{dn}-first-to-mem", it, [["sig", "hi", dup()], ["mem", "seen", None], ["write", "seen", V("hi"), ["cmp", ">", G_, K(0)]], ["sig", "again", dup()], ["sig", "big", ["proj", ["bin", "*", V("again"), K(100)], "signal-X"]], ["sig", "o", ["proj", ["bin", "+", ["read", "seen"], K(0)], "signal-Y"]]], ("hi", "again"), K=3)
    # memory: untyped data / untyped enable / both the same untyped value / untyped memory
    add("mem-untyped-data", un + ex, [["mem", "m", "signal-M"], ["write", "m", ["proj", U, "signal-M"], ["cmp", ">", V("x"), K(0)]], ["sig", "o", ["proj", ["read", "m"], "signal-X"]]], K=3)
    add("mem-untyped-enable", un + ex, [["mem", "m", "signal-M"], ["write", "m", ["proj", V("x"), "signal-M"], ["cmp", ">", U, K(0)]], ["sig", "o", ["proj", ["read", "m"], "signal-X"]]], K=3)
    add("mem-untyped-mem-and-data", un + ex, [["mem", "m", None], ["write", "m", ["bin", "+", U, K(1)], ["cmp", ">", V("x"), K(0)]], ["sig", "o", ["proj", ["read", "m"], "signal-X"]]], K=3)
    add("mem-untyped-same-data-and-when", un + ex, [["mem", "m", None], ["sig", "c", ["bin", "-", U, K(3)]], ["write", "m", V("c"), V("c")], ["sig", "o", ["proj", ["read", "m"], "signal-X"]]], K=3)
    add("mem-untyped-arith-when", un + ex, [["mem", "m", "signal-M"], ["sig", "c", ["bin", "-", U, K(3)]], ["write", "m", ["proj", V("x"), "signal-M"], V("c")], ["sig", "o", ["proj", ["read", "m"], "signal-X"]]], K=3)
    add("mem-counter-untyped-step", un + ex, [["mem", "m", "signal-M"], ["write", "m", ["bin", "+", ["read", "m"], ["proj", U, "signal-M"]], ["cmp", ">", V("x"), K(0)]], ["sig", "o", ["proj", ["read", "m"], "signal-X"]]], K=3)
    # latches with untyped set / reset, memory typed with an early letter
    for mt in ("signal-B", "signal-A", "signal-L"):
        add(f"latch-untyped-reset-{mt[-1]}", [("pad", None, 10061), ("r", None, 10067), ("s", mt, 10069)], [["mem", "l", mt], ["latch", "l", K(1), V("s"), V("r"), "sr"], ["sig", "o", ["proj", ["bin", "+", ["read", "l"], V("pad")], "signal-X"]]], K=3, bool_inputs=["r", "s"])
        add(f"latch-untyped-set-{mt[-1]}", [("pad", None, 10061), ("s", None, 10067), ("r", mt, 10069)], [["mem", "l", mt], ["latch", "l", K(1), V("s"), V("r"), "rs"], ["sig", "o", ["proj", ["bin", "+", ["read", "l"], V("pad")], "signal-X"]]], K=3, bool_inputs=["r", "s"])
        add(f"latch-untyped-both-{mt[-1]}", [("s", None, 10061), ("r", None, 10067)], [["mem", "l", mt], ["latch", "l", K(1), V("s"), V("r"), "sr"], ["sig", "o", ["proj", ["read", "l"], "signal-X"]]], K=3, bool_inputs=["r", "s"])
    # bundles: untyped scalar operand / comparison value / gate signal
    for nm, members in (("ab", [["lit", "signal-A", K(2)], ["lit", "signal-B", K(3)]]), ("cd", [["lit", "signal-C", K(2)], ["lit", "signal-D", K(3)]]), ("items", [["lit", "iron-plate", K(2)], ["lit", "coal", K(-3)]])):
        B0 = ["bun", "b", ["bundle", members]]
        for op in ("*", "+", "-"):
            add(f"bundle-{nm}-op{op}-untyped", un, [B0, ["bun", "r", ["bin", op, V("b"), U]]])
        add(f"bundle-{nm}-filter-untyped", un, [B0, ["bun", "r", ["cond", ["cmp", ">", V("b"), U], V("b")]]])
        add(f"bundle-{nm}-gate-untyped", un, [B0, ["bun", "r", ["cond", ["cmp", ">", U, K(2)], V("b")]]])
        add(f"bundle-{nm}-any-untyped", un, [B0, ["sig", "r", ["proj", ["cmp", ">", ["any", V("b")], U], "signal-X"]]])
    return progs


def fam_fresh(index):
    rnd = random.Random(f"fresh-{index}")
    pool = [("a", rnd.choice(["signal-A", "signal-S", "signal-C", "signal-1"]), 10007), ("b", rnd.choice(["signal-B", "signal-T", "iron-plate"]), 10009), ("u", None, 10061), ("u2", None, 10067), ("u3", None, 10069)]
    ins = [pool[0]] + rnd.sample(pool[1:], rnd.choice([2, 3, 4]))
    if not any(t is None for (_n, t, _d) in ins):
        ins.append(pool[2])
    stmts = [["input", n, t, d] for (n, t, d) in ins]
    g = ExprGen(rnd, [n for (n, _t, _d) in ins])
    for i in range(rnd.choice([1, 2])):
        stmts.append(["sig", f"o{i}", ["proj", g.sig(rnd.choice([1, 2])), OUT_SIGS[i]]])
    return _fresh_case(f"fresh-{index:04d}", stmts)


def corpus_c13(tier):
    n = 25 if tier == "quick" else 150
    return fam_fresh_fixed() + fam_fresh_stateful() + [fam_fresh(i) for i in range(n)]


# ======================================================================================
#  C15 functions, C16 loops  (reference = the generator's own call-by-substitution / unrolling interpreter)
# ======================================================================================


def fam_func_fixed():
    A, B, C = V("a"), V("b"), V("c")
    ins3 = [["input", "a", "signal-A", 10007], ["input", "b", "signal-B", 10009], ["input", "c", "iron-plate", 10037]]
    progs = []

    def add(name, body, kind="stateless", **params):
        params.setdefault("places", True)
        progs.append({"id": f"ufixed-{name}", "family": "fixed", "stmts": list(ins3) + body, "kind": kind, "params": params})

    F = lambda name, params, body, ret: ["func", name, [list(p) for p in params], body, ret]  # noqa: E731
    X, Y, Kk = V("x"), V("y"), V("k")
    add("sig-param", [F("f", [("Signal", "x")], [], ["bin", "+", ["bin", "*", X, K(2)], K(1)]), ["sig", "o", ["proj", ["call", "f", [A]], "signal-X"]]])
    add("two-calls", [F("f", [("Signal", "x")], [], ["bin", "+", ["bin", "*", X, K(2)], K(1)]), ["sig", "o", ["proj", ["call", "f", [A]], "signal-X"]], ["sig", "p", ["proj", ["call", "f", [B]], "signal-Y"]]])
    add("int-param", [F("f", [("Signal", "x"), ("int", "k")], [], ["bin", "*", X, Kk]), ["sig", "o", ["proj", ["call", "f", [A, K(7)]], "signal-X"]], ["sig", "p", ["proj", ["call", "f", [B, K(-3)]], "signal-Y"]]])
    add("int-to-signal", [F("f", [("Signal", "x"), ("Signal", "y")], [], ["bin", "+", X, Y]), ["sig", "o", ["proj", ["call", "f", [A, K(5)]], "signal-X"]]])
    add("expr-arg", [F("f", [("Signal", "x")], [], ["bin", "*", X, X]), ["sig", "o", ["proj", ["call", "f", [["bin", "+", A, B]]], "signal-X"]]])
    add("locals", [F("f", [("Signal", "x")], [["sig", "t", ["bin", "+", X, K(1)]], ["sig", "u", ["bin", "*", V("t"), V("t")]]], ["bin", "-", V("u"), X]), ["sig", "o", ["proj", ["call", "f", [A]], "signal-X"]], ["sig", "p", ["proj", ["call", "f", [C]], "signal-Y"]]])
    add("local-shadows-outer", [["sig", "t", ["bin", "*", A, K(100)]], F("f", [("Signal", "x")], [["sig", "t", ["bin", "+", X, K(1)]]], ["bin", "*", V("t"), K(2)]), ["sig", "o", ["proj", ["call", "f", [B]], "signal-X"]], ["sig", "p", ["proj", ["bin", "+", V("t"), K(0)], "signal-Y"]]])
    add("local-shadows-caller-param", [F("g", [("Signal", "v")], [["sig", "x", ["bin", "+", V("v"), K(1)]]], ["bin", "*", V("x"), K(3)]), F("f", [("Signal", "x")], [], ["bin", "+", ["call", "g", [B]], X]), ["sig", "o", ["proj", ["call", "f", [A]], "signal-X"]]])
    add("nested", [F("g", [("Signal", "x")], [], ["bin", "+", X, K(1)]), F("f", [("Signal", "x")], [], ["bin", "*", ["call", "g", [X]], ["call", "g", [["bin", "+", X, K(5)]]]]), ["sig", "o", ["proj", ["call", "f", [A]], "signal-X"]]])
    add("nested-same-param-name", [F("g", [("Signal", "x")], [], ["bin", "-", X, K(1)]), F("f", [("Signal", "x")], [["sig", "y", ["call", "g", [["bin", "*", X, K(2)]]]]], ["bin", "+", V("y"), X]), ["sig", "o", ["proj", ["call", "f", [A]], "signal-X"]]])
    sc = F("scale", [("Signal", "x"), ("int", "k")], [], ["bin", "*", X, Kk])
    add("nested-same-int-param-reused", [sc, F("step", [("Signal", "x"), ("int", "k")], [], ["bin", "+", ["call", "scale", [X, ["bin", "+", Kk, K(2)]]], Kk]), ["sig", "o", ["proj", ["call", "step", [A, K(3)]], "signal-X"]]])
    add("nested-same-int-param-before-and-after", [sc, F("step", [("Signal", "x"), ("int", "k")], [], ["bin", "-", ["bin", "*", X, Kk], ["bin", "+", ["call", "scale", [["bin", "+", X, K(1)], ["bin", "*", Kk, K(2)]]], ["bin", "*", X, Kk]]]), ["sig", "o", ["proj", ["call", "step", [A, K(3)]], "signal-X"]]])
    add("nested-three-levels", [sc, F("mid", [("Signal", "x"), ("int", "k")], [], ["bin", "+", ["call", "scale", [X, ["bin", "+", Kk, K(1)]]], Kk]), F("top", [("Signal", "x"), ("int", "k")], [], ["bin", "-", ["call", "mid", [["bin", "+", X, K(1)], ["bin", "*", Kk, K(2)]]], ["bin", "*", X, Kk]]), ["sig", "o", ["proj", ["call", "top", [A, K(3)]], "signal-X"]]])
    add("nested-entity-param-same-name", [F("inner", [("Entity", "e"), ("Signal", "x")], [["enable", "e", ["cmp", ">", X, K(3)]]], X), F("outer2", [("Entity", "e"), ("Entity", "f"), ("Signal", "x")], [["sig", "t", ["call", "inner", [V("f"), ["bin", "+", X, K(1)]]]], ["enable", "e", ["cmp", "<", X, K(0)]]], V("t")),
                                          ["place", "l1", "small-lamp", K(0), K(0), None], ["place", "l2", "small-lamp", K(3), K(0), None], ["sig", "o", ["proj", ["call", "outer2", [V("l1"), V("l2"), A]], "signal-X"]]])
    relu = F("relu", [("Signal", "v")], [], ["bin", "+", ["cond", ["cmp", "<", V("v"), K(0)], K(0)], ["cond", ["cmp", ">=", V("v"), K(0)], V("v")]])
    atl = F("at_least", [("Signal", "v"), ("int", "lo")], [], ["cond", ["cmp", "<", V("v"), V("lo")], V("lo")])
    pick = F("pick", [("Signal", "c"), ("Signal", "v")], [], ["cond", ["cmp", ">", V("c"), K(0)], V("v")])
    for ln, call in (("relu-neg", ["call", "relu", [K(-5)]]), ("relu-pos", ["call", "relu", [K(5)]]), ("relu-zero", ["call", "relu", [K(0)]]), ("atleast-neg-0", ["call", "at_least", [K(-5), K(0)]]), ("atleast-neg-3", ["call", "at_least", [K(-5), K(3)]]), ("atleast-neg-neg", ["call", "at_least", [K(-5), K(-2)]]),
                     ("atleast-false", ["call", "at_least", [K(9), K(3)]]), ("pick-1-0", ["call", "pick", [K(1), K(0)]]), ("pick-1-5", ["call", "pick", [K(1), K(5)]]), ("pick-0-5", ["call", "pick", [K(0), K(5)]]), ("pick-1-neg", ["call", "pick", [K(1), K(-1)]]), ("pick-sig-0", ["call", "pick", [B, K(0)]]), ("pick-1-sig", ["call", "pick", [K(1), B]])):
        add(f"all-literal-args-{ln}", [relu, atl, pick, ["sig", "o", ["proj", ["bin", "+", call, A], "signal-X"]]])
    add("param-type-actual", [F("f", [("Signal", "x")], [], ["bin", "+", X, K(1)]), ["sig", "o", ["call", "f", [C]]]])
    add("cond-in-func", [F("mx", [("Signal", "x"), ("Signal", "y")], [], ["bin", "+", ["cond", ["cmp", ">=", X, Y], X], ["cond", ["cmp", "<", X, Y], Y]]), ["sig", "o", ["proj", ["call", "mx", [A, B]], "signal-X"]]])
    add("call-in-loop", [F("f", [("Signal", "x"), ("int", "k")], [], ["bin", "+", X, Kk]), ["for", "i", ["range", 0, 3, None], [["place", "l", "small-lamp", V("i"), K(0), None], ["enable", "l", ["cmp", ">", ["call", "f", [A, V("i")]], K(5)]]]]])
    add("place-in-func", [F("mk", [("int", "k"), ("Signal", "x")], [["place", "l", "small-lamp", Kk, K(2), None], ["enable", "l", ["cmp", ">", X, Kk]]], X), ["sig", "o", ["proj", ["call", "mk", [K(0), A]], "signal-X"]], ["sig", "p", ["proj", ["call", "mk", [K(4), B]], "signal-Y"]]])
    add("entity-param", [F("drive", [("Entity", "e"), ("Signal", "x")], [["enable", "e", ["cmp", ">", X, K(3)]]], X), ["place", "l1", "small-lamp", K(0), K(0), None], ["place", "l2", "small-lamp", K(3), K(0), None], ["sig", "o", ["proj", ["call", "drive", [V("l1"), A]], "signal-X"]], ["sig", "p", ["proj", ["call", "drive", [V("l2"), B]], "signal-Y"]]])
    # name collisions between parameters and names live at the call site
    Pn, Qn = V("p"), V("q")
    insq = [["input", "p", "signal-P", 10069], ["input", "q", "signal-Q", 10079]]
    mix = F("mix", [("Signal", "p"), ("Signal", "w")], [], ["bin", "+", ["bin", "*", V("p"), K(10)], V("w")])
    add("arg-names-swapped", insq + [mix, ["sig", "o", ["proj", ["call", "mix", [Qn, Pn]], "signal-X"]]])
    add("arg-names-same-order", insq + [mix, ["sig", "o", ["proj", ["call", "mix", [Pn, Qn]], "signal-X"]]])
    add("arg-expr-mentions-param-name", insq + [mix, ["sig", "o", ["proj", ["call", "mix", [["bin", "+", Qn, K(1)], ["bin", "*", Pn, K(2)]]], "signal-X"]]])
    g2 = F("g", [("Signal", "a"), ("Signal", "b")], [], ["bin", "+", ["bin", "*", V("a"), K(10)], V("b")])
    f2 = F("f", [("Signal", "b"), ("Signal", "a")], [], ["bin", "*", ["call", "g", [V("b"), V("a")]], V("b")])
    add("nested-swapped-param-names", [g2, f2, ["sig", "o", ["proj", ["call", "f", [A, B]], "signal-X"]]])
    three = F("t3", [("Signal", "x"), ("Signal", "y"), ("Signal", "z")], [], ["bin", "-", ["bin", "+", ["bin", "*", X, K(100)], ["bin", "*", Y, K(10)]], V("z")])
    add("three-params-rotated", [["sig", "x", ["bin", "+", A, K(1)]], ["sig", "y", ["bin", "+", B, K(2)]], ["sig", "z", ["bin", "+", A, B]], three, ["sig", "o", ["proj", ["call", "t3", [V("z"), V("x"), V("y")]], "signal-X"]]])
    scale = F("scale", [("int", "n"), ("Signal", "x")], [], ["bin", "*", X, ["bin", "*", V("n"), K(2)]])
    add("int-param-shadows-global-int", [["int", "n", K(3)], scale, ["sig", "o", ["proj", ["call", "scale", [K(7), A]], "signal-X"]], ["sig", "p2", ["proj", ["bin", "*", B, V("n")], "signal-Y"]]])
    add("int-param-shadows-global-int-direct", [["int", "n", K(3)], F("sc2", [("int", "n"), ("Signal", "x")], [], ["bin", "*", X, V("n")]), ["sig", "o", ["proj", ["call", "sc2", [K(7), A]], "signal-X"]]])
    add("int-param-shadows-iterator", [F("sci", [("int", "i"), ("Signal", "x")], [], ["bin", "+", X, ["bin", "*", V("i"), K(3)]]), ["for", "i", ["range", 0, 2, None], [["place", "l", "small-lamp", V("i"), K(0), None], ["enable", "l", ["cmp", ">", ["call", "sci", [["bin", "+", V("i"), K(4)], A]], K(20)]]]]])
    add("int-param-in-coordinate-shadowed", [F("put", [("int", "x"), ("int", "row")], [["place", "l", "small-lamp", ["bin", "*", V("x"), K(2)], ["bin", "+", V("row"), K(1)], None], ["enable", "l", ["cmp", ">", A, V("x")]]], V("x")), ["for", "x", ["range", 0, 3, None], [["int", "r", ["call", "put", [["bin", "+", V("x"), K(5)], ["bin", "-", K(0), V("x")]]]]]]])
    add("signal-param-shadows-global-int", [["int", "x", K(4)], F("ab", [("Signal", "x")], [], ["bin", "+", ["cond", ["cmp", ">=", X, K(0)], X], ["cond", ["cmp", "<", X, K(0)], ["bin", "-", K(0), X]]]), ["sig", "o", ["proj", ["call", "ab", [A]], "signal-X"]]])
    add("loop-in-func-entity-param", [F("deco", [("Entity", "target"), ("int", "y")], [["for", "j", ["range", 0, 2, None], [["place", "d", "small-lamp", V("j"), V("y"), None], ["enable", "d", ["cmp", ">", A, V("j")]]]], ["enable", "target", ["cmp", ">", A, K(7)]]], V("y")), ["place", "t1", "small-lamp", K(5), K(5), None], ["int", "r1", ["call", "deco", [V("t1"), K(2)]]]])
    add("loop-in-func-entity-param-zero-iter", [F("deco", [("Entity", "target"), ("int", "y")], [["for", "j", ["range", 0, 0, None], [["place", "d", "small-lamp", V("j"), V("y"), None]]], ["enable", "target", ["cmp", ">", A, K(7)]]], V("y")), ["place", "t1", "small-lamp", K(5), K(5), None], ["int", "r1", ["call", "deco", [V("t1"), K(2)]]]])
    off = F("off", [("Signal", "v"), ("Signal", "x")], [], ["bin", "*", ["bin", "+", X, V("v")], ["bin", "-", V("v"), K(1)]])
    add("literal-for-signal-param-twice", [off, ["sig", "o", ["proj", ["call", "off", [K(5), A]], "signal-X"]]])
    add("intvar-for-signal-param-twice", [["int", "five", K(5)], off, ["sig", "o", ["proj", ["call", "off", [V("five"), A]], "signal-X"]]])
    add("iterator-for-signal-param-twice", [off, ["for", "i", ["list", [5]], [["place", "l", "small-lamp", V("i"), K(0), None], ["enable", "l", ["cmp", ">", ["call", "off", [V("i"), A]], K(40)]]]]])
    off2 = F("off2", [("Signal", "v"), ("Signal", "x")], [["sig", "w", ["bin", "*", V("v"), K(2)]]], ["bin", "+", ["bin", "+", X, V("v")], V("w")])
    add("literal-for-signal-param-local", [off2, ["sig", "o", ["proj", ["call", "off2", [K(5), A]], "signal-X"]]])
    both = F("both", [("Signal", "y")], [], ["bin", "+", ["proj", V("y"), "iron-plate"], ["proj", V("y"), "iron-plate"]])
    both2 = F("both2", [("Signal", "y")], [["sig", "p1", ["proj", V("y"), "iron-plate"]]], ["bin", "+", V("p1"), ["proj", ["bin", "*", V("y"), K(2)], "iron-plate"]])
    uins = [["input", "ku", None, 10061]]
    add("implicit-expr-arg-projected", uins + [both, ["sig", "o", ["proj", ["call", "both", [["bin", "*", V("ku"), K(3)]]], "signal-X"]]])
    add("implicit-expr-arg-projected-2", uins + [both2, ["sig", "o", ["proj", ["call", "both2", [["bin", "*", V("ku"), K(3)]]], "signal-X"]]])
    add("explicit-expr-arg-projected", [both2, ["sig", "o", ["proj", ["call", "both2", [["bin", "*", B, K(3)]]], "signal-X"]]])
    add("implicit-var-arg-projected", uins + [both2, ["sig", "o", ["proj", ["call", "both2", [V("ku")]], "signal-X"]]])
    outer = F("outer", [("Signal", "z")], [], ["call", "both2", [V("z")]])
    add("implicit-expr-arg-forwarded", uins + [both2, outer, ["sig", "o", ["proj", ["call", "outer", [["bin", "+", V("ku"), K(1)]]], "signal-X"]]])
    add("local-memory-per-call", [F("hold", [("Signal", "x"), ("Signal", "en")], [["mem", "m", "signal-M"], ["write", "m", ["proj", X, "signal-M"], ["cmp", ">", V("en"), K(0)]]], ["read", "m"]), ["sig", "o", ["proj", ["call", "hold", [A, C]], "signal-X"]], ["sig", "p", ["proj", ["call", "hold", [B, C]], "signal-Y"]]], kind="history", K=3, places=False)
    return progs


def fam_func(index):
    rnd = random.Random(f"func-{index}")
    ins3 = [["input", "a", "signal-A", 10007], ["input", "b", "signal-B", 10009], ["input", "c", "iron-plate", 10037]]
    nparams = rnd.choice([1, 2, 2])
    params = [["Signal", "x"]] + ([[rnd.choice(["Signal", "int"]), "y"]] if nparams == 2 else [])
    g = ExprGen(rnd, ["x"] + (["y"] if nparams == 2 and params[1][0] == "Signal" else []))
    body = []
    if rnd.random() < 0.5:
        body.append(["sig", "t", g.sig(1)])
        g.names.append("t")
    ret = g.sig(rnd.choice([1, 2]))
    if nparams == 2 and params[1][0] == "int" and rnd.random() < 0.7:
        ret = ["bin", rnd.choice(["+", "*", "-"]), ret, V("y")]
    stmts = list(ins3) + [["func", "f", params, body, ret]]
    ncalls = rnd.choice([1, 2, 2, 3])
    outer = ExprGen(rnd, ["a", "b", "c"])
    for i in range(ncalls):
        args = [outer.sig(rnd.choice([0, 0, 1]))]
        if nparams == 2:
            args.append(K(rnd.choice(SMALL)) if params[1][0] == "int" or rnd.random() < 0.3 else outer.sig(0))
        stmts.append(["sig", f"o{i}", ["proj", ["call", "f", args], OUT_SIGS[i]]])
    return {"id": f"func-{index:04d}", "family": "func", "stmts": stmts, "kind": "stateless", "params": {"places": True}}


def corpus_c15(tier):
    n = 25 if tier == "quick" else 150
    return fam_func_fixed() + [fam_func(i) for i in range(n)]


def fam_loop16_fixed():
    A, B = V("a"), V("b")
    ins = [["input", "a", "signal-A", 10007], ["input", "b", "signal-B", 10009]]
    progs = []

    def add(name, body, **params):
        params.setdefault("places", True)
        progs.append({"id": f"pfixed-{name}", "family": "fixed", "stmts": list(ins) + body, "kind": "stateless", "params": params})

    I = V("i")
    lamp_body = lambda xe, ye=K(0), cond=None: [["place", "l", "small-lamp", xe, ye, None], ["enable", "l", cond or ["cmp", ">", A, I]]]  # noqa: E731
    for nm, it in {
        "asc": ["range", 0, 5, None], "asc-step2": ["range", 0, 10, 2], "asc-nondiv": ["range", 0, 10, 3], "desc": ["range", 10, 0, -2], "desc-nondiv": ["range", 10, 0, -3],
        "desc-auto": ["range", 5, 0, None], "neg": ["range", -4, 3, None], "neg-desc": ["range", 3, -4, -2], "empty": ["range", 3, 3, None], "empty-wrong-dir": ["range", 0, 5, -1],
        "empty-wrong-dir2": ["range", 5, 0, 1], "single": ["range", 4, 5, None], "list": ["list", [1, 3, 5, 7]], "list-unordered": ["list", [5, -1, 3]], "list-empty": ["list", []], "list-single": ["list", [2]],
    }.items():
        add(nm, [["for", "i", it, lamp_body(I)]])
    add("var-bounds", [["int", "n", K(4)], ["int", "s", K(2)], ["for", "i", ["range", 0, "n", None], lamp_body(I)], ["for", "j", ["range", "n", 10, "s"], [["place", "m", "small-lamp", V("j"), K(2), None], ["enable", "m", ["cmp", ">", B, V("j")]]]]])
    add("iter-arith", [["for", "i", ["range", 0, 4, None], [["place", "l", "small-lamp", ["bin", "*", I, K(2)], K(0), None], ["place", "l2", "small-lamp", ["bin", "+", ["bin", "*", I, K(2)], K(1)], K(0), None], ["enable", "l", ["cmp", ">", A, ["bin", "*", I, K(3)]]], ["enable", "l2", ["cmp", ">", ["bin", "+", A, I], B]]]]])
    add("iter-literal-value", [["for", "i", ["range", 1, 4, None], [["sig", "k", ["lit", "signal-K", I]], ["place", "l", "small-lamp", I, K(0), None], ["enable", "l", ["cmp", ">", ["bin", "*", V("k"), A], K(10)]]]]])
    add("nested2", [["for", "i", ["range", 0, 3, None], [["for", "j", ["range", 0, 2, None], [["place", "l", "small-lamp", I, V("j"), None], ["enable", "l", ["cmp", ">", A, ["bin", "+", ["bin", "*", I, K(2)], V("j")]]]]]]]])
    add("nested3", [["for", "i", ["range", 0, 2, None], [["for", "j", ["range", 0, 2, None], [["for", "k", ["list", [0, 3]], [["place", "l", "small-lamp", ["bin", "+", ["bin", "*", I, K(2)], V("j")], V("k"), None], ["enable", "l", ["cmp", ">", A, ["bin", "+", ["bin", "+", I, V("j")], V("k")]]]]]]]]]])
    add("body-name-local", [["sig", "t", ["bin", "*", A, K(100)]], ["for", "i", ["range", 0, 2, None], [["sig", "t", ["bin", "+", A, I]], ["place", "l", "small-lamp", I, K(0), None], ["enable", "l", ["cmp", ">", V("t"), K(5)]]]], ["sig", "o", ["proj", ["bin", "+", V("t"), K(1)], "signal-X"]]])
    add("iter-shadows-int", [["int", "i", K(7)], ["for", "i", ["range", 0, 2, None], lamp_body(I)], ["sig", "o", ["proj", ["bin", "*", A, I], "signal-X"]]])
    add("call-in-body", [["func", "f", [["Signal", "x"], ["int", "k"]], [], ["bin", "+", V("x"), V("k")]], ["for", "i", ["range", 0, 3, None], [["place", "l", "small-lamp", I, K(0), None], ["enable", "l", ["cmp", ">", ["call", "f", [A, I]], K(3)]]]]])
    add("outer-used-in-body", [["sig", "m", ["bin", "+", A, B]], ["for", "i", ["range", 0, 4, None], [["place", "l", "small-lamp", I, K(0), None], ["enable", "l", ["cmp", ">=", V("m"), I]]]]])
    add("loop-in-func-entity-param", [["func", "deco", [["Entity", "target"], ["int", "y"]], [["for", "j", ["range", 0, 2, None], [["place", "d", "small-lamp", V("j"), V("y"), None], ["enable", "d", ["cmp", ">", A, V("j")]]]], ["enable", "target", ["cmp", ">", A, K(7)]]], V("y")], ["place", "t1", "small-lamp", K(5), K(5), None], ["int", "r1", ["call", "deco", [V("t1"), K(2)]]]])
    add("loop-in-func-write-in-second-iter", [["func", "deco2", [["Entity", "target"]], [["for", "j", ["range", 0, 3, None], [["enable", "target", ["cmp", ">", A, V("j")]]]]], K(0)], ["place", "t1", "small-lamp", K(5), K(5), None], ["int", "r1", ["call", "deco2", [V("t1")]]]])
    BL = ["bun", "bb", ["bundle", [["lit", "signal-C", I], ["lit", "coal", ["bin", "*", I, K(10)]]]]]
    add("iter-bundle-all", [["for", "i", ["range", 1, 4, None], [BL, ["place", "l", "small-lamp", I, K(0), None], ["enable", "l", ["cmp", ">=", ["all", V("bb")], K(2)]]]]])
    add("iter-bundle-arith-any", [["for", "i", ["range", 1, 4, None], [BL, ["bun", "dd", ["bin", "*", V("bb"), K(2)]], ["place", "l", "small-lamp", I, K(0), None], ["enable", "l", ["cmp", ">", ["any", V("dd")], K(50)]]]]])
    add("iter-bundle-list-nested", [["for", "j", ["list", [0, 2]], [["for", "i", ["list", [5, 1, 3]], [["bun", "bb", ["bundle", [["lit", "signal-C", ["bin", "+", I, V("j")]], ["lit", "coal", ["bin", "*", I, K(10)]]]]], ["place", "l", "small-lamp", I, V("j"), None], ["enable", "l", ["cmp", ">=", ["all", V("bb")], K(4)]]]]]]])
    add("iter-bundle-all-desc", [["for", "i", ["range", 6, 0, -2], [BL, ["place", "l", "small-lamp", I, K(0), None], ["enable", "l", ["cmp", "<", ["all", V("bb")], K(45)]]]]])
    add("iter-typed-literal-same-type", [["for", "i", ["list", [2, 5, 9]], [["place", "l", "small-lamp", I, K(0), None], ["enable", "l", ["cmp", ">", ["bin", "-", A, ["lit", "signal-A", I]], K(0)]]]]])
    add("iter-typed-literal-same-type-range", [["for", "i", ["range", 1, 4, None], [["place", "l", "small-lamp", I, K(0), None], ["enable", "l", ["cmp", ">", ["bin", "*", ["bin", "-", A, ["lit", "signal-A", ["bin", "*", I, K(3)]]], K(2)], K(1)]]]]])
    add("call-twice-typed-literal", [["func", "f", [["int", "n"], ["Signal", "x"]], [], ["bin", "-", V("x"), ["lit", "signal-A", V("n")]]], ["sig", "o1", ["proj", ["call", "f", [K(3), A]], "signal-X"]], ["sig", "o2", ["proj", ["call", "f", [K(9), A]], "signal-Y"]], ["sig", "o3", ["proj", ["call", "f", [K(-4), B]], "signal-Z"]]])
    add("call-twice-const-bundle", [["func", "mk", [["int", "n"], ["Entity", "e"]], [["bun", "cb", ["bundle", [["lit", "signal-C", V("n")], ["lit", "coal", ["bin", "*", V("n"), K(10)]]]]], ["enable", "e", ["cmp", ">=", ["all", V("cb")], K(3)]]], V("n")],
                                    ["place", "l1", "small-lamp", K(0), K(0), None], ["place", "l2", "small-lamp", K(2), K(0), None], ["int", "r1", ["call", "mk", [K(1), V("l1")]]], ["int", "r2", ["call", "mk", [K(7), V("l2")]]]])
    # results declared in the body that nothing consumes: every iteration exposes its own (one observation point per iteration)
    add("body-out-arith", [["for", "i", ["range", 0, 3, None], [["sig", "t", ["bin", "*", A, ["bin", "+", I, K(2)]]], ["sig", "y", ["bin", "+", V("t"), I]]]]], places=False)
    add("body-out-desc-nondiv", [["for", "k", ["range", 7, 0, -3], [["sig", "w", ["bin", "-", A, V("k")]]]]], places=False)
    add("body-out-const-literal", [["for", "i", ["range", 1, 4, None], [["sig", "c", ["lit", "signal-B", I]]]]], places=False)
    add("body-out-const-literal-used", [["for", "i", ["range", 1, 4, None], [["sig", "c", ["lit", "signal-B", I]], ["sig", "y", ["proj", ["bin", "*", V("c"), A], "signal-X"]]]]], places=False)
    add("body-out-const-literal-nested", [["for", "j", ["list", [10, 20]], [["for", "i", ["range", 1, 3, None], [["sig", "c", ["lit", "signal-B", ["bin", "+", I, V("j")]]], ["sig", "y", ["proj", ["bin", "+", V("c"), A], "signal-X"]]]]]]], places=False)
    add("body-out-diamond", [["for", "i", ["range", 1, 5, None], [["sig", "t", ["bin", "*", B, I]], ["sig", "u", ["proj", ["bin", "+", V("t"), K(1)], "signal-A"]], ["sig", "v", ["bin", "+", V("u"), V("t")]]]]], places=False)
    add("body-out-diamond-rev-names", [["for", "i", ["range", 1, 5, None], [["sig", "t", ["bin", "*", A, I]], ["sig", "u", ["proj", ["bin", "+", V("t"), K(1)], "signal-B"]], ["sig", "v", ["bin", "+", V("u"), V("t")]]]]], places=False)
    add("body-out-diamond-list-nested", [["for", "k", ["list", [0]], [["for", "i", ["list", [4, 3, 2, 1]], [["sig", "t", ["bin", "*", B, ["bin", "+", I, V("k")]]], ["sig", "u", ["proj", ["bin", "+", V("t"), K(1)], "signal-A"]], ["sig", "v", ["bin", "+", V("u"), V("t")]]]]]]], places=False)
    add("body-out-cmp", [["for", "i", ["list", [2, 5, 9]], [["sig", "f", ["cmp", ">", A, I]]]]], places=False)
    add("body-out-projected-same-signal", [["for", "i", ["range", 0, 3, None], [["sig", "p", ["proj", ["bin", "+", A, ["bin", "*", I, K(10)]], "signal-X"]]]]], places=False)
    add("body-out-nested", [["for", "i", ["range", 0, 2, None], [["for", "j", ["range", 0, 2, None], [["sig", "z", ["bin", "+", ["bin", "*", A, ["bin", "+", I, K(1)]], V("j")]]]]]]], places=False)
    add("body-out-and-lamp", [["for", "i", ["range", 0, 3, None], [["sig", "y", ["proj", ["bin", "-", A, I], "signal-X"]], ["place", "l", "small-lamp", I, K(0), None], ["enable", "l", ["cmp", ">", B, I]]]]])
    add("mem-in-body", [["for", "i", ["range", 0, 2, None], [["mem", "m", "signal-M"], ["write", "m", ["proj", ["bin", "+", A, I], "signal-M"], ["cmp", ">", B, I]], ["place", "l", "small-lamp", I, K(0), None], ["enable", "l", ["cmp", ">", ["read", "m"], K(3)]]]]], places=True, kind_override="history")
    for c in progs:
        if c["params"].pop("kind_override", None):
            c["kind"] = "history"
            c["params"]["K"] = 3
    return progs


def fam_loop16(index):
    rnd = random.Random(f"loop16-{index}")
    ins = [["input", "a", "signal-A", 10007], ["input", "b", "signal-B", 10009]]
    a = rnd.randint(-6, 6)
    b = rnd.randint(-6, 8)
    st = rnd.choice([None, None, 1, 2, 3, -1, -2, -3])
    it = ["range", a, b, st] if rnd.random() < 0.8 else ["list", [rnd.randint(-5, 9) for _ in range(rnd.randint(0, 4))]]
    I = V("i")
    xe = rnd.choice([I, ["bin", "*", I, K(2)], ["bin", "+", I, K(10)], ["bin", "-", K(0), I]])
    cond_rhs = rnd.choice([I, ["bin", "*", I, K(3)], ["bin", "+", I, K(-2)], K(4)])
    if it[0] == "list":
        # duplicate list values would stack entities on one tile; keep them distinct
        it = ["list", sorted(set(it[1]), key=it[1].index)]
    body = [["place", "l", "small-lamp", xe, K(0), None], ["enable", "l", ["cmp", rnd.choice(CMPS), rnd.choice([V("a"), ["bin", "+", V("a"), V("b")], ["bin", "*", V("a"), I]]), cond_rhs]]]
    return {"id": f"loop16-{index:04d}", "family": "loop16", "stmts": ins + [["for", "i", it, body]], "kind": "stateless", "params": {"places": True}}


def corpus_c16(tier):
    n = 25 if tier == "quick" else 150
    return fam_loop16_fixed() + [fam_loop16(i) for i in range(n)]


# ======================================================================================
#  C17 library contracts and import graphs
# ======================================================================================

INTS17 = [0, 1, -1, 5, 31, 100, -100, 2147483647, -2147483648]


def fam_lib():
    X, Y = V("x"), V("y")
    insx = [["input", "x", "signal-A", 10007]]
    insxy = insx + [["input", "y", "signal-B", 10009]]
    progs = []

    def add(name, ins, call, imp="math.facto"):
        stmts = [["import", imp]] + list(ins) + [["sig", "o", ["proj", call, "signal-X"]]]
        progs.append({"id": f"lib-{name}", "family": "lib", "stmts": stmts, "kind": "stateless", "params": {"must_accept": True}})

    add("abs", insx, ["call", "abs", [X]])
    add("sign", insx, ["call", "sign", [X]])
    add("min", insxy, ["call", "min", [X, Y]])
    add("max", insxy, ["call", "max", [X, Y]])
    add("min-same-type", insx + [["input", "y", "signal-A", 10009]], ["call", "min", [X, Y]])
    add("min-expr", insxy, ["call", "min", [["bin", "+", X, K(1)], ["bin", "*", Y, K(2)]]])
    for lo, hi in ((0, 10), (-5, 5), (-2147483648, 2147483647), (7, 7), (-100, -1), (0, 2147483647)):
        add(f"clamp-{lo}-{hi}", insx, ["call", "clamp", [X, K(lo), K(hi)]])
        add(f"between-{lo}-{hi}", insx, ["call", "between", [X, K(lo), K(hi)]])
    for a, b in ((0, 100), (10, 20), (100, 0), (-50, 50), (0, 0), (5, 1000000), (-2147483648, 0)):
        add(f"lerp-{a}-{b}", insx, ["call", "lerp", [K(a), K(b), X]])
    for pos in (0, 1, 5, 16, 30, 31):
        for fn in ("get_bit", "set_bit", "clear_bit", "toggle_bit"):
            add(f"{fn}-{pos}", insx, ["call", fn, [X, K(pos)]])
    add("div_floor", insxy, ["call", "div_floor", [X, Y]])
    add("mod_positive", insxy, ["call", "mod_positive", [X, Y]])
    add("abs-of-sign", insx, ["call", "abs", [["call", "sign", [X]]]])
    add("max-of-min", insxy, ["call", "max", [["call", "min", [X, Y]], K(0)]])
    # global ints named like a library parameter
    def addg(name, globs, ins, call):
        stmts = [["import", "math.facto"]] + [["int", n, K(v)] for n, v in globs] + list(ins) + [["sig", "o", ["proj", call, "signal-X"]]]
        progs.append({"id": f"lib-{name}", "family": "lib", "stmts": stmts, "kind": "stateless", "params": {"must_accept": True}})
    insv = [["input", "v", "signal-A", 10007]]
    for fn in ("set_bit", "clear_bit", "toggle_bit", "get_bit"):
        addg(f"{fn}-global-pos", [("pos", 3)], insv, ["call", fn, [V("v"), K(5)]])
    addg("lerp-global-ab", [("a", 50), ("b", 7)], insv, ["call", "lerp", [K(10), K(20), V("v")]])
    addg("abs-global-x", [("x", 4)], insv, ["call", "abs", [V("v")]])
    addg("clamp-global-low-high", [("low", 3), ("high", 4)], insv, ["call", "clamp", [V("v"), K(-10), K(10)]])
    addg("between-global-low-high", [("low", 3), ("high", 4)], insv, ["call", "between", [V("v"), K(-10), K(10)]])
    def add2(name, ins, calls):
        stmts = [["import", "math.facto"]] + list(ins) + [["sig", f"o{i}", ["proj", c, OUT_SIGS[i]]] for i, c in enumerate(calls)]
        progs.append({"id": f"lib-{name}", "family": "lib", "stmts": stmts, "kind": "stateless", "params": {"must_accept": True}})
    add2("pair-divfloor-modpos", insxy, [["call", "div_floor", [X, Y]], ["call", "mod_positive", [X, Y]]])
    add2("pair-modpos-divfloor", insxy, [["call", "mod_positive", [X, Y]], ["call", "div_floor", [X, Y]]])
    add2("pair-divfloor-abs", insxy, [["call", "div_floor", [X, Y]], ["call", "abs", [X]]])
    add2("pair-abs-min-max", insxy, [["call", "abs", [X]], ["call", "min", [X, Y]], ["call", "max", [X, Y]]])
    add2("pair-clamp-between-abs", insx, [["call", "clamp", [X, K(-5), K(5)]], ["call", "between", [X, K(-5), K(5)]], ["call", "abs", [X]]])
    add2("pair-abs-and-user-cmp", insx, [["call", "abs", [X]], ["cond", ["cmp", "<", X, K(0)], K(7)], ["cond", ["cmp", ">=", X, K(0)], K(9)]])
    add2("pair-bits", insx, [["call", "get_bit", [X, K(3)]], ["call", "set_bit", [X, K(3)]], ["call", "clear_bit", [X, K(3)]], ["call", "toggle_bit", [X, K(3)]]])
    add("abs-lib-path", insx, ["call", "abs", [X]], imp="lib/math.facto")
    return progs


def fam_imports():
    """import graphs over generated files; reference = the pasted twin (functions defined once, in order)"""
    X = V("x")
    A, B = V("a"), V("b")
    ins = [["input", "a", "signal-A", 10007], ["input", "b", "signal-B", 10009]]
    F = lambda name, body, ret: ["func", name, [["Signal", "x"]], body, ret]  # noqa: E731
    fa = F("fa", [], ["bin", "+", ["bin", "*", X, K(2)], K(1)])
    fb = F("fb", [], ["bin", "-", X, K(7)])
    fc = F("fc", [], ["bin", "*", X, X])
    fa_b = F("fa", [], ["bin", "+", ["call", "fb", [X]], K(1)])
    fb_c = F("fb", [], ["bin", "*", ["call", "fc", [X]], K(3)])
    decoy_a = F("fa", [], ["bin", "+", X, K(1000)])
    body = lambda calls: [["sig", f"o{i}", ["proj", c, OUT_SIGS[i]]] for i, c in enumerate(calls)]  # noqa: E731
    cases = []

    def add(name, files, main_imports, calls, twin_funcs, decoys=None):
        main = [["import", p] for p in main_imports] + ins + body(calls)
        twin = list(twin_funcs) + ins + body(calls)
        cases.append({"id": f"imp-{name}", "family": "imports", "kind": "import", "files": files, "main": main, "stmts": twin, "params": {"decoys": decoys or {}}})

    add("single", {"a.facto": [fa]}, ["a.facto"], [["call", "fa", [A]]], [fa])
    add("no-suffix", {"a.facto": [fa]}, ["a"], [["call", "fa", [A]]], [fa])
    add("two-files", {"a.facto": [fa], "b.facto": [fb]}, ["a.facto", "b.facto"], [["call", "fa", [A]], ["call", "fb", [B]]], [fa, fb])
    add("chain", {"a.facto": [["import", "b.facto"], fa_b], "b.facto": [["import", "c.facto"], fb_c], "c.facto": [fc]}, ["a.facto"], [["call", "fa", [A]]], [fc, fb_c, fa_b])
    add("diamond", {"a.facto": [["import", "c.facto"], F("fa", [], ["bin", "+", ["call", "fc", [X]], K(1)])], "b.facto": [["import", "c.facto"], F("fb", [], ["bin", "-", ["call", "fc", [X]], K(1)])], "c.facto": [fc]}, ["a.facto", "b.facto"],
        [["call", "fa", [A]], ["call", "fb", [B]]], [fc, F("fa", [], ["bin", "+", ["call", "fc", [X]], K(1)]), F("fb", [], ["bin", "-", ["call", "fc", [X]], K(1)])])
    add("twice", {"a.facto": [fa]}, ["a.facto", "a.facto"], [["call", "fa", [A]]], [fa])
    add("cycle", {"a.facto": [["import", "b.facto"], fa], "b.facto": [["import", "a.facto"], fb]}, ["a.facto"], [["call", "fa", [A]], ["call", "fb", [B]]], [fb, fa])
    add("self-cycle", {"a.facto": [["import", "a.facto"], fa]}, ["a.facto"], [["call", "fa", [A]]], [fa])
    add("subdir", {"sub/a.facto": [["import", "b.facto"], fa_b], "sub/b.facto": [fb]}, ["sub/a.facto"], [["call", "fa", [A]]], [fb, fa_b])
    add("subdir-up", {"sub/a.facto": [fa], "b.facto": [fb]}, ["sub/a.facto", "b.facto"], [["call", "fa", [A]], ["call", "fb", [B]]], [fa, fb])
    add("decoy-in-cwd", {"a.facto": [fa]}, ["a.facto"], [["call", "fa", [A]]], [fa], decoys={"a.facto": [decoy_a]})
    add("subdir-decoy", {"sub/a.facto": [["import", "b.facto"], fa_b], "sub/b.facto": [fb]}, ["sub/a.facto"], [["call", "fa", [A]]], [fb, fa_b], decoys={"b.facto": [F("fb", [], ["bin", "+", X, K(5000)])]})
    consts_sub = F("kk", [], ["bin", "+", ["bin", "*", X, K(2)], K(1)])
    consts_top = F("kk", [], ["bin", "+", ["bin", "*", X, K(100)], K(1)])
    helper = F("fh", [], ["bin", "+", ["call", "kk", [X]], K(0)])
    add("nested-same-name-beside-entry", {"sub/helper.facto": [["import", "consts.facto"], helper], "sub/consts.facto": [consts_sub], "consts.facto": [consts_top]}, ["sub/helper.facto"], [["call", "fh", [A]]], [consts_sub, helper])
    add("nested-same-name-two-levels", {"sub/deep/helper.facto": [["import", "consts.facto"], helper], "sub/deep/consts.facto": [consts_sub], "sub/consts.facto": [consts_top], "consts.facto": [consts_top]}, ["sub/deep/helper.facto"], [["call", "fh", [A]]], [consts_sub, helper])
    # round 4: one file reached under two spellings (.., ., a redundant sub/..) must still be included once
    fh_c = F("fh", [], ["bin", "+", ["call", "fc", [X]], K(5)])
    add("respelled-dotdot", {"common.facto": [fc], "sub/helper.facto": [["import", "../common.facto"], fh_c]}, ["common.facto", "sub/helper.facto"], [["call", "fc", [A]], ["call", "fh", [B]]], [fc, fh_c])
    add("respelled-dotdot-first", {"common.facto": [fc], "sub/helper.facto": [["import", "../common.facto"], fh_c]}, ["sub/helper.facto", "common.facto"], [["call", "fc", [A]], ["call", "fh", [B]]], [fc, fh_c])
    add("respelled-dot", {"a.facto": [fa]}, ["a.facto", "./a.facto"], [["call", "fa", [A]]], [fa])
    add("respelled-sub-up", {"a.facto": [fa], "sub/b.facto": [fb]}, ["a.facto", "sub/../a.facto", "sub/b.facto"], [["call", "fa", [A]], ["call", "fb", [B]]], [fa, fb])
    add("respelled-cycle", {"sub/a.facto": [["import", "../sub/b.facto"], fa], "sub/b.facto": [["import", "./a.facto"], fb]}, ["sub/a.facto"], [["call", "fa", [A]], ["call", "fb", [B]]], [fb, fa])
    add("with-lib", {"a.facto": [["import", "math.facto"], F("fa", [], ["bin", "+", ["call", "abs", [X]], K(1)])]}, ["a.facto"], [["call", "fa", [A]]], [["import", "math.facto"], F("fa", [], ["bin", "+", ["call", "abs", [X]], K(1)])])
    return cases


def corpus_c17(tier):
    return fam_lib() + fam_imports()


# ======================================================================================
#  C11 constant folding in every syntactic position (reference: run-time arithmetic on the same operands)
# ======================================================================================

FOLD_PAIRS = {
    "+": [(7, 2), (-7, 2), (2147483647, 1), (-2147483648, -1), (1000000000, 1500000000)],
    "-": [(7, 2), (2, 7), (-2147483648, 1), (2147483647, -1), (0, -2147483648)],
    "*": [(7, 2), (-7, 2), (65536, 65536), (65536, 32768), (-46341, 46341), (123456, 7890)],
    "/": [(7, 2), (-7, 2), (7, -2), (-7, -2), (5, 0), (-2147483647, 2), (1, -3)],
    "%": [(7, 2), (-7, 2), (7, -2), (-7, -2), (5, 0), (-2147483647, 10), (3, -5)],
    "**": [(2, 10), (3, 4), (-1, 2), (-1, 3), (-1, 4), (-2, 3), (0, 0), (7, 0), (10, 8), (46341, 2), (1, 8), (-3, 5)],
    "<<": [(1, 4), (1, 31), (-1, 1), (3, 30), (-16, 2), (5, 0), (65536, 16), (-1, 0)],
    ">>": [(256, 4), (-16, 2), (-1, 31), (2147483647, 30), (-2147483648, 31), (5, 0), (-17, 1)],
    "AND": [(12, 10), (-1, 255), (-256, 4095), (2147483647, -2147483648)],
    "OR": [(12, 10), (-256, 15), (0, -1), (1, -2147483648)],
    "XOR": [(12, 10), (-1, 255), (-1, -1), (2147483647, -1)],
    "==": [(3, 3), (3, 4)], "!=": [(3, 3), (3, 4)], "<": [(-1, 0), (0, -1)], "<=": [(2, 2), (3, 2)], ">": [(0, -1), (-5, -4)], ">=": [(2, 2), (-3, 2)],
}


def _fold_sites(op, a, b):
    """(site name, statements) for the constant expression `a op b` in every position where the compiler folds"""
    X, Y = V("x"), V("y")
    E = ["bin", op, K(a), K(b)] if op in ARITH else ["cmp", op, K(a), K(b)]
    P = lambda e: ["proj", e, "signal-X"]  # noqa: E731
    lamp = ["place", "l", "small-lamp", K(0), K(0), None]
    sites = {
        "int-decl": [["int", "k", E], ["sig", "o", P(["bin", "+", X, V("k")])]],
        "int-chain": [["int", "ka", K(a)], ["int", "kb", K(b)], ["int", "k", ["bin", op, V("ka"), V("kb")] if op in ARITH else ["cmp", op, V("ka"), V("kb")]], ["sig", "o", P(["bin", "+", X, V("k")])]],
        "operand": [["sig", "o", P(["bin", "+", X, E])]],
        "operand-left": [["sig", "o", P(["bin", "-", E, X])]],
        "literal-value": [["sig", "s", ["lit", "signal-S", E]], ["sig", "o", P(["bin", "+", V("s"), X])]],
        "condition": [["sig", "o", ["cond", ["cmp", ">", X, E], Y]]],
        "cond-value": [["sig", "o", P(["bin", "+", ["cond", ["cmp", ">", X, K(0)], E], Y])]],
        "func-arg": [["func", "f", [["Signal", "v"], ["int", "n"]], [], ["bin", "+", V("v"), V("n")]], ["sig", "o", P(["call", "f", [X, E]])]],
        "func-body": [["func", "g", [["Signal", "v"], ["int", "p"], ["int", "q"]], [], ["bin", "+", V("v"), ["bin", op, V("p"), V("q")] if op in ARITH else ["cmp", op, V("p"), V("q")]]], ["sig", "o", P(["call", "g", [X, K(a), K(b)]])]],
        "func-body-shadowed": [["int", "p", K(a + 11)], ["int", "q", K(b - 5)], ["func", "g", [["Signal", "v"], ["int", "p"], ["int", "q"]], [], ["bin", "+", V("v"), ["bin", op, V("p"), V("q")] if op in ARITH else ["cmp", op, V("p"), V("q")]]], ["sig", "o", P(["call", "g", [X, K(a), K(b)]])], ["sig", "o2", ["proj", ["bin", "+", Y, V("p")], "signal-Y"]]],
        "func-in-loop-shadowed": [["func", "g", [["Signal", "v"], ["int", "i"]], [], ["bin", "+", V("v"), ["bin", op, V("i"), K(b)] if op in ARITH else ["cmp", op, V("i"), K(b)]]], ["for", "i", ["list", [a + 100]], [lamp, ["enable", "l", ["cmp", ">", ["call", "g", [X, K(a)]], K(0)]]]]],
        "loop-iter": [["for", "i", ["list", [a]], [lamp, ["enable", "l", ["cmp", ">", X, ["bin", op, V("i"), K(b)] if op in ARITH else ["cmp", op, V("i"), K(b)]]]]]],
        "enable": [lamp, ["enable", "l", ["cmp", ">", X, E]]],
        "coordinate": [["place", "l", "small-lamp", ["bin", "+", K(0), ["bin", "%", E, K(7)]] if op in ARITH else K(0), K(0), None], ["enable", "l", ["cmp", ">", X, K(1)]]],
    }
    if op in ARITH:
        # constants that only the IR-level optimiser sees
        sites["ir-projected-literal"] = [["sig", "o", P(["bin", "+", ["bin", op, ["proj", K(a), "signal-B"], K(b)], X])]]
        sites["ir-signal-param"] = [["func", "h", [["Signal", "v"], ["int", "n"]], [], ["bin", op, V("v"), V("n")]], ["sig", "o", P(["bin", "+", ["call", "h", [K(a), K(b)]], X])]]
        sites["ir-typed-literals"] = [["sig", "o", P(["bin", "+", ["bin", op, ["lit", "signal-K", K(a)], K(b)], X])]]
        sites["ir-const-true-cond"] = [["sig", "o", P(["bin", "+", ["bin", op, ["cond", ["cmp", ">", K(3), K(1)], K(a)], K(b)], X])]]
    return sites


def corpus_c11(tier):
    ins = [["input", "x", "signal-A", 10007], ["input", "y", "signal-B", 10009]]
    cases = []
    # constants whose value is exactly 0 (or negative) as decider output / literal, supplied in several forms
    X, Y = V("x"), V("y")
    for nm, pre, kexpr in (("lit0", [], K(0)), ("intvar0", [["int", "k", K(0)]], V("k")), ("computed0", [["int", "k", ["bin", "-", K(5), K(5)]]], V("k")), ("litneg", [], K(-1)), ("lit5", [], K(5))):
        cases.append({"id": f"fold-zero-cond-{nm}", "family": "fold", "stmts": ins + pre + [["sig", "o", ["proj", ["bin", "+", ["cond", ["cmp", ">", X, K(3)], kexpr], Y], "signal-X"]]], "kind": "stateless", "params": {"places": True}})
        cases.append({"id": f"fold-zero-cond-compound-{nm}", "family": "fold", "stmts": ins + pre + [["sig", "o", ["proj", ["bin", "+", ["cond", ["and", ["cmp", ">", X, K(3)], ["cmp", "<", Y, K(9)]], kexpr], Y], "signal-X"]]], "kind": "stateless", "params": {"places": True}})
    cases.append({"id": "fold-zero-loop-iter-output", "family": "fold", "stmts": ins + [["for", "i", ["range", 0, 3, None], [["place", "l", "small-lamp", V("i"), K(0), None], ["enable", "l", ["cmp", ">", ["bin", "+", ["cond", ["cmp", ">", X, V("i")], V("i")], Y], K(0)]]]]], "kind": "stateless", "params": {"places": True}})
    cases.append({"id": "fold-zero-bundle-filter-const", "family": "fold", "stmts": ins + [["bun", "b", ["bundle", [X, Y]]], ["bun", "r", ["cond", ["cmp", ">", V("b"), K(3)], K(0)]], ["bun", "r5", ["cond", ["cmp", ">", V("b"), K(3)], K(5)]]], "kind": "stateless", "params": {"places": True}})
    # "replacing any constant operand by an input signal holding the same value never changes any output": ONE constant
    # operand (left / right; literal, int variable, int parameter, iterator), the other operand an input
    P_ = lambda e: ["proj", e, "signal-X"]  # noqa: E731
    for op in list(ARITH) + list(CMPS):
        mk = (lambda l, r, op=op: ["bin", op, l, r]) if op in ARITH else (lambda l, r, op=op: ["cmp", op, l, r])
        kvals = (("1", 1), ("2", 2), ("neg3", -3), ("1000", 1000))
        if tier == "quick":
            kvals = kvals[:2] if op in ARITH else kvals[1:2]
        for kn, kv in kvals:
            if op in ("<<", ">>", "**") and not 0 <= kv <= 8:
                rights = ()
            else:
                rights = ("right",)
            for side in ("left",) + rights:
                e_of = (lambda kx: mk(kx, X)) if side == "left" else (lambda kx: mk(X, kx))
                cases.append({"id": f"halfconst-{side}-lit-{op}-{kn}", "family": "halfconst", "stmts": ins + [["sig", "o", P_(e_of(K(kv)))]], "kind": "stateless", "params": {"places": True}})
                if tier != "quick" or kn == "2":
                    cases.append({"id": f"halfconst-{side}-intvar-{op}-{kn}", "family": "halfconst", "stmts": ins + [["int", "k", K(kv)], ["sig", "o", P_(e_of(V("k")))]], "kind": "stateless", "params": {"places": True}})
                    cases.append({"id": f"halfconst-{side}-param-{op}-{kn}", "family": "halfconst", "stmts": ins + [["func", "h", [["Signal", "v"], ["int", "n"]], [], mk(V("n"), V("v")) if side == "left" else mk(V("v"), V("n"))], ["sig", "o", P_(["call", "h", [X, K(kv)]])]], "kind": "stateless", "params": {"places": True}})
                    cases.append({"id": f"halfconst-{side}-iter-{op}-{kn}", "family": "halfconst", "stmts": ins + [["for", "i", ["list", [kv]], [["place", "l", "small-lamp", K(0), K(0), None], ["enable", "l", ["cmp", ">", e_of(V("i")), Y]]]]], "kind": "stateless", "params": {"places": True}})
    for op, pairs in FOLD_PAIRS.items():
        if tier == "quick":
            pairs = pairs[:3] if op in ARITH else pairs[:1]
        for (a, b) in pairs:
            for site, body in _fold_sites(op, a, b).items():
                if tier == "quick" and op not in ARITH and site not in ("int-decl", "operand", "condition", "func-arg"):
                    continue
                # positions that are miscompiled wholesale on the pinned tree (folded constant as literal value /
                # as `cond : value`): one representative each is enough
                if site in ("literal-value", "cond-value") and (op, a, b) != ("+", 7, 2):
                    continue
                if site == "coordinate" and (a < 0 or b < 0) and (op, a, b) != ("/", -7, 2):
                    continue
                cases.append({"id": f"fold-{site}-{op}-{a}-{b}", "family": "fold", "stmts": ins + body, "kind": "stateless", "params": {"places": True}})
    return cases


# ======================================================================================
#  C07 invocation matrix
# ======================================================================================


def c07_programs():
    A, B, C = V("a"), V("b"), V("c")
    ins3 = [["input", "a", "signal-A", 10007], ["input", "b", "signal-B", 10009], ["input", "c", "iron-plate", 10037]]
    P = lambda e, t="signal-X": ["proj", e, t]  # noqa: E731
    progs = {
        "arith": (ins3 + [["sig", "o", P(["bin", "+", ["bin", "*", A, K(3)], B])], ["sig", "p", P(["bin", "%", ["bin", "-", A, B], K(7)], "signal-Y")], ["sig", "q", ["cond", ["and", ["cmp", ">", A, K(3)], ["cmp", "<", B, K(9)]], C]], ["sig", "r", P(["cmp", "<=", A, B], "signal-Z")]], {}),
        "cond-same-type": (ins3 + [["sig", "d", ["cond", ["cmp", ">", A, K(3)], ["bin", "*", A, K(3)]]], ["sig", "e", P(["bin", "+", ["cond", ["cmp", ">=", A, K(0)], A], ["cond", ["cmp", "<", A, K(0)], ["bin", "-", K(0), A]]])]], {}),
        "bundle": (ins3 + [["input", "s", "signal-S", 10079], ["bun", "b0", ["bundle", [["lit", "signal-D", K(5)], ["lit", "coal", K(-3)], ["lit", "steel-plate", K(100)]]]], ["bun", "b1", ["bin", "*", V("b0"), K(2)]], ["bun", "b2", ["cond", ["cmp", ">", V("b1"), K(4)], V("b1")]],
                           ["bun", "b3", ["cond", ["cmp", ">", V("s"), K(2)], V("b0")]], ["sig", "an", ["cmp", ">", ["any", V("b1")], K(50)]], ["bun", "b4", ["bin", "+", V("b0"), V("s")]]], {}),
        "entities": (ins3 + [["place", "l0", "small-lamp", K(0), K(0), None], ["enable", "l0", ["cmp", ">", A, K(10)]], ["place", "i0", "inserter", K(3), K(0), None], ["enable", "i0", ["cmp", ">", ["bin", "+", A, B], K(5)]],
                             ["place", "ch", "steel-chest", K(0), K(3), None], ["bun", "co", ["out", "ch"]], ["place", "l1", "small-lamp", K(2), K(3), None], ["enable", "l1", ["cmp", ">", ["all", V("co")], K(100)]],
                             ["place", "l2", "small-lamp", K(4), K(3), None], ["enable", "l2", A]], {}),
        "memory": (ins3 + [["mem", "m", "signal-M"], ["write", "m", P(["bin", "*", A, K(2)], "signal-M"), ["cmp", ">", B, K(0)]], ["sig", "r0", ["read", "m"]], ["sig", "r1", P(["bin", "+", ["read", "m"], K(1)])]], {"K": 3}),
        "latch": ([["input", "t", "signal-T", 10007], ["mem", "m", "signal-L"], ["latch", "m", K(5), ["cmp", "<", V("t"), K(20)], ["cmp", ">=", V("t"), K(80)], "sr"], ["sig", "r0", ["read", "m"]],
                   ["mem", "n", "signal-N"], ["latch", "n", K(1), ["cmp", ">", V("t"), K(50)], ["cmp", "<", V("t"), K(10)], "rs"], ["sig", "s0", ["read", "n"]]], {"K": 3}),
        "counter2": (ins3[:1] + [["mem", "m", "signal-M"], ["write", "m", ["bin", "%", ["bin", "+", ["read", "m"], P(A, "signal-M")], K(10)], None], ["sig", "r0", ["read", "m"]],
                                  ["mem", "k", "signal-K"], ["write", "k", ["bin", "+", ["read", "k"], K(1)], None], ["sig", "r1", ["read", "k"]]], {"K": 3}),
        "modcounter": (ins3[:1] + [["mem", "m", "signal-A"], ["write", "m", ["bin", "%", ["bin", "+", ["read", "m"], A], K(10)], None], ["sig", "out", ["bin", "+", ["read", "m"], K(0)]],
                                    ["mem", "k", "signal-K"], ["write", "k", ["bin", "%", ["bin", "+", ["read", "k"], K(1)], K(7)], None], ["sig", "r1", ["read", "k"]]], {"K": 3}),
        "triangles": (ins3 + [["sig", "x1", P(["bin", "*", A, K(2)], "signal-P")], ["sig", "y1", P(["bin", "+", A, V("x1")], "signal-X")],
                               ["sig", "x2", P(["bin", "+", B, K(7)], "signal-Q")], ["sig", "y2", P(["bin", "*", V("x2"), B], "signal-Y")],
                               ["sig", "x3", ["cmp", ">", C, K(3)]], ["sig", "y3", P(["bin", "+", ["bin", "*", V("x3"), K(10)], C], "signal-Z")]], {}),
        # round 4: two different values of ONE signal type meeting at a single-condition decider (operands on different colours)
        "same-type-compare": (ins3[:2] + [["sig", "x1", ["bin", "*", A, K(2)]], ["sig", "x2", ["bin", "+", A, K(3)]], ["sig", "c1", ["cond", ["cmp", ">", V("x1"), V("x2")], V("x1")]], ["sig", "c2", P(["cmp", "<=", V("x2"), V("x1")], "signal-Z")],
                                           ["sig", "c3", P(["bin", "-", V("x1"), V("x2")], "signal-Y")]], {}),
        "same-type-compare-mem": (ins3[:1] + [["mem", "m", "signal-A"], ["write", "m", ["bin", "%", ["bin", "+", ["read", "m"], K(1)], K(10)], None], ["sig", "x1", ["bin", "*", ["read", "m"], K(2)]], ["sig", "x2", ["bin", "+", ["read", "m"], K(3)]],
                                               ["sig", "c1", ["cond", ["cmp", ">", V("x1"), V("x2")], V("x1")]]], {"K": 3}),
        "far": (ins3[:2] + [["place", "l0", "small-lamp", K(25), K(0), None], ["enable", "l0", ["cmp", ">", A, K(5)]], ["place", "l1", "small-lamp", K(-20), K(0), None], ["enable", "l1", ["cmp", ">", ["bin", "+", A, B], K(7)]], ["sig", "o", P(["bin", "-", A, B])]], {}),
    }
    return progs


def c07_cells(tier):
    cells = []
    for entry in ("module", "compile", "factompile"):
        for inp in ("file", "string"):
            if entry == "compile" and inp == "string":
                continue
            for js in (False, True):
                for outk in ("stdout", "file"):
                    for opt in (None, "no-optimize", "poles:medium", "poles:substation", "name"):
                        cells.append({"entry": entry, "input": inp, "json": js, "out": outk, "opt": opt})
    if tier == "quick":
        # covering subset: every value of every dimension, every entry x format, every entry x option
        keep = []
        for i, c in enumerate(cells):
            if c["opt"] is None and c["out"] == "stdout":
                keep.append(c)
            elif c["opt"] is None and c["out"] == "file" and c["input"] == "file" and c["json"]:
                keep.append(c)
            elif c["opt"] is not None and c["input"] == "file" and ((c["json"] and c["out"] == "stdout") if c["entry"] != "compile" else (not c["json"] and c["out"] == "file")) and (c["opt"] != "poles:substation" or c["entry"] == "module"):
                keep.append(c)
        cells = keep
    return cells


def corpus_c07(tier):
    cases = []
    progs = c07_programs()
    names = list(progs)
    if tier == "quick":
        names = ["arith", "cond-same-type", "bundle", "entities", "memory", "counter2", "modcounter", "triangles", "far", "same-type-compare", "same-type-compare-mem"]
    for pn in names:
        stmts, params = progs[pn]
        for ci, cell in enumerate(c07_cells(tier)):
            if tier == "quick" and pn not in ("arith", "entities") and not (cell["opt"] is None and cell["input"] == "file" and cell["out"] == "stdout" and cell["entry"] in ("module", "compile")) and not (cell["opt"] in ("poles:medium",) and cell["entry"] == "module"):
                continue
            cid = f"cli-{pn}-{cell['entry']}-{cell['input']}-{'json' if cell['json'] else 'str'}-{cell['out']}-{cell['opt'] or 'default'}"
            cases.append({"id": cid, "family": "cli", "kind": "cli", "stmts": stmts, "params": dict(params, cell=cell, group=f"{pn}|{cell['opt'] if cell['opt'] != 'name' else None}")})
    return cases


# ======================================================================================
#  C08 / C09 / C18 layout families
# ======================================================================================

ALL_POLE_BUILDS = [OPT, NOOPT] + [{"tag": f"opt+{t}", "optimize": True, "poles": t} for t in ("small", "medium", "big", "substation")]


def fam_layout_fixed():
    A, B = V("a"), V("b")
    ins = [["input", "a", "signal-A", 10007], ["input", "b", "signal-B", 10009]]
    P = lambda e, t="signal-X": ["proj", e, t]  # noqa: E731
    progs = []

    def add(name, body, **params):
        progs.append({"id": f"yfixed-{name}", "family": "fixed", "kind": "layout", "stmts": ins + body, "params": params})

    def lamps(xs, y=0, cond=lambda j: ["cmp", ">", A, K(j + 5)], proto="small-lamp", pre="l"):
        out = []
        for j, x in enumerate(xs):
            out += [["place", f"{pre}{j}", proto, K(x), K(y), None], ["enable", f"{pre}{j}", cond(j)]]
        return out

    add("two-far-20", lamps([0, 20]))
    add("two-far-35", lamps([-10, 25]))
    add("two-far-60", lamps([0, 60]))
    add("row-far", lamps([0, 14, 28, 42]))
    add("negative", lamps([-30, -15, -3], y=-4))
    add("expr-far", lamps([0, 22], cond=lambda j: ["cmp", ">", ["bin", "+", A, B], K(j)]) + [["sig", "o", P(["bin", "-", A, B])]])
    add("two-rows", lamps([0, 25], y=0) + lamps([0, 25], y=2, cond=lambda j: ["cmp", "<", B, K(j)], pre="m"))
    # two independent long routes carrying the SAME signal name on the same colour, close together
    add("two-chests-two-lamps", [["place", "c1", "steel-chest", K(0), K(0), None], ["place", "c2", "steel-chest", K(0), K(3), None], ["bun", "o1", ["out", "c1"]], ["bun", "o2", ["out", "c2"]],
                                 ["place", "l1", "small-lamp", K(30), K(0), None], ["place", "l2", "small-lamp", K(30), K(3), None], ["enable", "l1", ["cmp", ">", ["any", V("o1")], K(5)]], ["enable", "l2", ["cmp", ">", ["any", V("o2")], K(5)]]])
    add("two-chests-two-lamps-apart", [["place", "c1", "steel-chest", K(0), K(0), None], ["place", "c2", "steel-chest", K(0), K(25), None], ["bun", "o1", ["out", "c1"]], ["bun", "o2", ["out", "c2"]],
                                       ["place", "l1", "small-lamp", K(30), K(0), None], ["place", "l2", "small-lamp", K(30), K(25), None], ["enable", "l1", ["cmp", ">", ["any", V("o1")], K(5)]], ["enable", "l2", ["cmp", ">", ["any", V("o2")], K(5)]]])
    add("same-signal-two-sources", [["input", "d", "signal-A", 10039], ["sig", "x1", ["bin", "*", A, K(2)]], ["sig", "x2", ["bin", "*", V("d"), K(3)]],
                                    ["place", "l1", "small-lamp", K(28), K(0), None], ["place", "l2", "small-lamp", K(28), K(2), None], ["place", "l3", "small-lamp", K(-20), K(1), None],
                                    ["enable", "l1", ["cmp", ">", V("x1"), K(5)]], ["enable", "l2", ["cmp", ">", V("x2"), K(5)]], ["enable", "l3", ["cmp", ">", V("x2"), K(9)]]])
    add("same-input-signal-two-lamps", [["input", "d", "signal-A", 10039], ["place", "l1", "small-lamp", K(26), K(0), None], ["place", "l2", "small-lamp", K(26), K(1), None], ["enable", "l1", ["cmp", ">", A, K(5)]], ["enable", "l2", ["cmp", ">", V("d"), K(5)]]])
    add("multi-tile", [["place", "t0", "train-stop", K(4), K(4), None], ["enable", "t0", ["cmp", ">", A, K(3)]], ["place", "as", "assembling-machine-1", K(8), K(4), None], ["enable", "as", ["cmp", ">", B, K(3)]],
                       ["place", "tk", "storage-tank", K(12), K(4), None], ["place", "ch", "steel-chest", K(16), K(4), None], ["bun", "co", ["out", "ch"]], ["place", "l", "small-lamp", K(18), K(4), None], ["enable", "l", ["cmp", ">", ["all", V("co")], K(5)]]])
    add("multi-tile-negative", [["place", "t0", "train-stop", K(-6), K(-6), None], ["enable", "t0", ["cmp", ">", A, K(3)]], ["place", "as", "assembling-machine-1", K(-12), K(2), None], ["enable", "as", ["cmp", ">", B, K(3)]], ["place", "l", "small-lamp", K(-7), K(1), None], ["enable", "l", A]])
    add("user-near-origin", lamps([0, 1, 2, 3], y=0) + lamps([0, 1, 2, 3], y=1, pre="m") + [["sig", "o", P(["bin", "*", ["bin", "+", A, B], K(3)])]])
    add("relay-through-user-entity", [["place", "ch", "steel-chest", K(0), K(0), None], ["bun", "co", ["out", "ch"]], ["place", "l", "small-lamp", K(30), K(0), None], ["enable", "l", ["cmp", ">", ["any", V("co")], K(5)]],
                                      ["place", "blk", "assembling-machine-1", K(7), K(-1), None], ["place", "blk2", "train-stop", K(16), K(-1), None], ["place", "blk3", "small-lamp", K(-7), K(0), None]])
    add("memory-adversarial", [["mem", "m", "signal-M"], ["write", "m", P(["bin", "*", A, K(2)], "signal-M"), ["cmp", ">", B, K(0)]], ["sig", "r0", ["read", "m"]]], K=3, adversarial=True)
    add("latch-adversarial", [["mem", "m", "signal-L"], ["latch", "m", K(7), ["cmp", ">", A, K(20)], ["cmp", ">", B, K(80)], "sr"], ["sig", "r0", ["read", "m"]]], K=3, adversarial=True)
    for nm, rs in (("zero", ["cmp", "==", V("lvl"), K(0)]), ("ten", ["cmp", "<=", V("lvl"), K(10)])):
        add(f"latch-typed-threshold-{nm}-far", [["place", "ch", "steel-chest", K(0), K(0), None], ["bun", "co", ["out", "ch"]], ["sig", "lvl", ["sel", V("co"), "iron-plate"]], ["mem", "m", "signal-L"],
                                               ["latch", "m", K(1), ["cmp", ">", V("lvl"), K(100)], rs, "sr"], ["place", "l", "small-lamp", K(30), K(0), None], ["enable", "l", ["cmp", ">", ["read", "m"], K(0)]]], ref_check=False)
        add(f"latch-input-threshold-{nm}-far", [["mem", "m", "signal-L"], ["latch", "m", K(1), ["cmp", ">", A, K(100)], ["cmp", "==", A, K(0)] if nm == "zero" else ["cmp", "<=", A, K(10)], "sr"],
                                               ["place", "l0", "small-lamp", K(-15), K(0), None], ["enable", "l0", ["cmp", ">", A, K(5)]], ["place", "l", "small-lamp", K(30), K(0), None], ["enable", "l", ["cmp", ">", ["read", "m"], K(0)]]], ref_check=False)
    for d in (0, 4, 8, 12):
        add(f"directions-{d}", [["place", "tk", "storage-tank", K(0), K(0), None], ["place", "pm", "pump", K(1), K(3), {"direction": d}], ["place", "pm2", "pump", K(4), K(0), {"direction": d}], ["place", "ins", "inserter", K(6), K(3), {"direction": d}],
                                ["place", "l", "small-lamp", K(3), K(3), None], ["enable", "l", ["cmp", ">", A, K(1)]]])
    add("memory-far-reader", [["mem", "m", "signal-M"], ["write", "m", P(["bin", "*", A, K(2)], "signal-M"), ["cmp", ">", B, K(0)]], ["place", "l", "small-lamp", K(30), K(0), None], ["enable", "l", ["cmp", ">", ["read", "m"], K(5)]], ["sig", "r0", ["read", "m"]]], K=3)
    add("latch-multiplier-far", [["mem", "m", "signal-L"], ["latch", "m", K(7), ["cmp", "<", A, K(20)], ["cmp", ">=", A, K(80)], "sr"], ["place", "l", "small-lamp", K(-25), K(3), None], ["enable", "l", ["cmp", ">", ["read", "m"], K(0)]], ["sig", "r0", ["read", "m"]]], K=3)
    # two independent long routes in every quadrant (relay tiles at negative coordinates)
    for qn, (sx, sy) in (("neg-y", (1, -1)), ("neg-x", (-1, 1)), ("neg-xy", (-1, -1))):
        add(f"two-chests-two-lamps-{qn}", [["place", "c1", "steel-chest", K(0), K(sy * 2), None], ["place", "c2", "steel-chest", K(0), K(sy * 5), None], ["bun", "o1", ["out", "c1"]], ["bun", "o2", ["out", "c2"]],
                                           ["place", "l1", "small-lamp", K(sx * 20), K(sy * 2), None], ["place", "l2", "small-lamp", K(sx * 20), K(sy * 5), None], ["enable", "l1", ["cmp", ">", ["any", V("o1")], K(5)]], ["enable", "l2", ["cmp", ">", ["any", V("o2")], K(5)]]])
        add(f"two-chests-two-lamps-30-{qn}", [["place", "c1", "steel-chest", K(sx * 1), K(sy * 3), None], ["place", "c2", "steel-chest", K(sx * 1), K(sy * 6), None], ["bun", "o1", ["out", "c1"]], ["bun", "o2", ["out", "c2"]],
                                              ["place", "l1", "small-lamp", K(sx * 31), K(sy * 3), None], ["place", "l2", "small-lamp", K(sx * 31), K(sy * 6), None], ["enable", "l1", ["cmp", ">", ["any", V("o1")], K(5)]], ["enable", "l2", ["cmp", ">", ["any", V("o2")], K(5)]]])
    # two routes from adjacent rows that CROSS (each chest drives the lamp of the other row), in every quadrant
    for qn, (lx, y0, y1) in (("pos", (20, 0, 1)), ("neg-y", (20, -4, -3)), ("neg-x", (-20, 0, 1)), ("neg-xy", (-20, -4, -3)), ("neg-y-30", (30, -7, -6))):
        add(f"crossing-routes-{qn}", [["place", "c1", "steel-chest", K(0), K(y0), None], ["place", "c2", "steel-chest", K(0), K(y1), None], ["place", "l1", "small-lamp", K(lx), K(y1), None], ["place", "l2", "small-lamp", K(lx), K(y0), None],
                                      ["place", "anchor", "small-lamp", K(0), K(6), None], ["bun", "b1", ["out", "c1"]], ["bun", "b2", ["out", "c2"]], ["enable", "l1", ["cmp", ">", ["any", V("b1")], K(0)]], ["enable", "l2", ["cmp", ">", ["any", V("b2")], K(5)]]])
    # every latch form (value: 1 / constant / declared input / computed; conditions inlined / as signals), compact and with far consumers
    VL = ["input", "vl", "signal-L", 10067]
    SS, RR = ["input", "s", "signal-S", 10039], ["input", "r", "signal-R", 10061]
    for vn, vv, vin in (("one", K(1), []), ("k7", K(7), []), ("input", V("vl"), [VL]), ("computed", P(["bin", "*", B, K(2)], "signal-L"), [])):
        for cn, (st, rs, cin) in (("inl", (["cmp", "<", A, K(20)], ["cmp", ">=", A, K(80)], [])), ("two", (["cmp", ">", A, K(10)], ["cmp", ">", B, K(10)], [])), ("sig", (V("s"), V("r"), [SS, RR]))):
            lat = vin + cin + [["mem", "m", "signal-L"], ["latch", "m", vv, st, rs, "sr"]]
            if vn == "input":
                add(f"latch-{vn}-{cn}-compact", lat + [["sig", "r0", ["read", "m"]]], ref_check=False)
            add(f"latch-{vn}-{cn}-far", lat + [["place", "l0", "small-lamp", K(0), K(0), None], ["enable", "l0", ["cmp", ">", A, K(5)]], ["place", "l", "small-lamp", K(40), K(0), None], ["enable", "l", ["cmp", ">", ["read", "m"], K(0)]]], ref_check=False)
    body = [["sig", "m", ["bin", "*", A, K(3)]]]
    for i in range(12):
        body.append(["sig", f"o{i}", P(["bin", "+", V("m"), K(i + 1)], f"signal-{chr(ord('C') + i)}")])
    add("fanout-12", body)
    body = []
    for i in range(16):
        body += [["place", f"l{i}", "small-lamp", K(2 * i), K(6), None], ["enable", f"l{i}", ["cmp", ">", A, K(10 * i)] if i % 2 else ["cmp", "<", B, K(i)]]]
    add("row-16-expr", body)
    return progs


def _layout_cases(progs, tier, quick_builds, quick_unknown, all_builds=None, all_unknown=(0, 1, 3, 5), extra=None):
    """one case per (program, build, outcome stub): every compile runs in a fresh worker process"""
    all_builds = all_builds or ALL_POLE_BUILDS
    cases = []
    for c in progs:
        for b in all_builds:
            for k in all_unknown:
                if c["params"].get("single_outcome") and k != 0:
                    continue
                q = b["tag"] in quick_builds and k in quick_unknown
                if tier == "quick" and not q:
                    continue
                p = dict(c["params"], builds=[b], unknown_first=[k])
                if extra:
                    p.update(extra)
                cases.append(dict(c, id=f"{c['id']}|{b['tag']}|u{k}", params=p))
    return cases


def corpus_c08(tier):
    progs = []
    for c in fam_layout_fixed():
        c = dict(c)
        if c["id"] in ("yfixed-row-16-expr",):
            c["params"] = dict(c["params"], single_outcome=True)
        progs.append(c)
    return _layout_cases(progs, tier, quick_builds=("opt", "opt+medium", "opt+substation"), quick_unknown=(0, 3))


def fam_places_fixed():
    A, B = V("a"), V("b")
    ins = [["input", "a", "signal-A", 10007], ["input", "b", "signal-B", 10009]]
    I, J = V("i"), V("j")
    progs = []

    def add(name, body, **params):
        progs.append({"id": f"zfixed-{name}", "family": "fixed", "kind": "layout", "stmts": ins + body, "params": params})

    def lamp(name, x, y, cond=None, proto="small-lamp", props=None):
        out = [["place", name, proto, x, y, props]]
        if cond is not None:
            out.append(["enable", name, cond])
        return out

    add("literals", lamp("l0", K(0), K(0), A) + lamp("l1", K(5), K(-3), ["cmp", ">", A, K(2)]) + lamp("l2", K(-7), K(4)) + lamp("l3", K(2), K(9), ["cmp", "<", B, K(0)]))
    add("int-vars", [["int", "px", K(6)], ["int", "py", ["bin", "-", K(0), K(4)]], ["int", "qx", ["bin", "+", V("px"), K(3)]]] + lamp("l0", V("px"), V("py"), A) + lamp("l1", V("qx"), V("py"), B) + lamp("l2", ["bin", "*", V("px"), K(2)], ["bin", "+", V("py"), K(10)]))
    add("loop-row", [["for", "i", ["range", 0, 8, None], lamp("l", I, K(0), ["cmp", ">", A, I])]])
    add("loop-arith", [["for", "i", ["range", 0, 5, None], lamp("l", ["bin", "*", I, K(3)], ["bin", "-", K(2), I], ["cmp", ">", A, I]) + lamp("m", ["bin", "+", ["bin", "*", I, K(3)], K(1)], ["bin", "-", K(2), I])]])
    add("loop-desc-neg", [["for", "i", ["range", 4, -5, -2], lamp("l", I, ["bin", "*", I, K(2)], ["cmp", ">", A, K(0)])]])
    add("grid-5x5", [["for", "i", ["range", 0, 5, None], [["for", "j", ["range", 0, 5, None], lamp("l", ["bin", "*", I, K(2)], ["bin", "*", J, K(2)], ["cmp", ">", A, ["bin", "+", ["bin", "*", I, K(5)], J]])]]]])
    add("func-place", [["func", "put", [["int", "x"], ["int", "row"]], lamp("l", ["bin", "*", V("x"), K(2)], ["bin", "+", V("row"), K(1)], ["cmp", ">", A, V("x")]), V("x")],
                       ["for", "x", ["range", 0, 3, None], [["int", "r", ["call", "put", [["bin", "+", V("x"), K(5)], ["bin", "-", K(0), V("x")]]]]]]])
    add("func-place-two-calls", [["func", "pair", [["int", "x"], ["int", "y"]], lamp("u", V("x"), V("y"), A) + lamp("v", ["bin", "+", V("x"), K(1)], V("y"), B), V("x")], ["int", "r1", ["call", "pair", [K(0), K(0)]]], ["int", "r2", ["call", "pair", [K(10), K(-5)]]]])
    add("multi-tile", lamp("t0", K(4), K(4), ["cmp", ">", A, K(3)], proto="train-stop") + lamp("as", K(8), K(4), ["cmp", ">", B, K(3)], proto="assembling-machine-1") + lamp("tk", K(12), K(4), proto="storage-tank") + lamp("rb", K(16), K(4), proto="roboport") + lamp("pm", K(21), K(4), proto="pump"))
    add("multi-tile-negative", lamp("t0", K(-6), K(-6), ["cmp", ">", A, K(3)], proto="train-stop") + lamp("as", K(-12), K(2), ["cmp", ">", B, K(3)], proto="assembling-machine-1") + lamp("tk", K(-3), K(-9), proto="storage-tank") + lamp("l", K(-7), K(1), A))
    add("unwired", lamp("c0", K(0), K(0), proto="steel-chest") + lamp("c1", K(1), K(0), proto="steel-chest") + lamp("b0", K(0), K(2), proto="transport-belt") + lamp("b1", K(1), K(2), proto="transport-belt") + lamp("p", K(5), K(5), proto="medium-electric-pole"))
    for pt, proto in (("small", "small-electric-pole"), ("medium", "medium-electric-pole"), ("big", "big-electric-pole"), ("substation", "substation")):
        add(f"user-pole-{pt}", lamp("l0", K(0), K(0), A) + lamp("up", K(25), K(12), proto=proto) + lamp("up2", K(-14), K(-9), proto=proto) + lamp("up3", K(3), K(1), proto=proto))
    add("signal-const-coordinates", [["sigconst", "left", 2], ["sigconst", "org", 0], ["sigconst", "top", 1], ["for", "i", ["range", 0, 4, None], lamp("l", ["bin", "+", V("left"), ["bin", "*", I, K(2)]], ["bin", "+", V("top"), K(1)], ["cmp", ">", A, I])]]
        + lamp("z0", ["bin", "+", V("org"), K(2)], ["bin", "+", V("org"), K(6)]) + lamp("z1", ["bin", "*", V("left"), V("org")], ["bin", "+", V("top"), K(8)]) + lamp("z2", V("org"), ["bin", "-", V("org"), V("left")]))
    add("signal-const-noncommutative", [["sigconst", "wd", 16], ["sigconst", "left", 2]] + lamp("n0", ["bin", "-", V("wd"), K(1)], K(0), A) + lamp("n1", ["bin", "/", V("wd"), K(3)], K(2), B) + lamp("n2", ["bin", "%", V("wd"), K(5)], K(4))
        + lamp("n3", ["bin", "-", K(20), V("wd")], K(6), ["cmp", ">", A, K(1)]) + lamp("n4", ["bin", "-", V("wd"), V("left")], K(8)) + lamp("n5", K(0), ["bin", "-", V("left"), V("wd")]) + lamp("n6", ["bin", "<<", V("left"), K(3)], K(10)) + lamp("n7", ["bin", ">>", V("wd"), K(2)], K(12)))
    add("props", lamp("l", K(2), K(3), A, props={"always_on": 1, "use_colors": 1}) + lamp("t", K(-4), K(6), props={"station": '"Iron Pickup"'}, proto="train-stop") + lamp("i", K(0), K(0), A, proto="inserter", props={"direction": 4}) + lamp("am", K(6), K(6), props={"recipe": '"iron-gear-wheel"'}, proto="assembling-machine-1"))
    add("adjacent-to-origin", lamp("l0", K(0), K(0), A) + lamp("l1", K(1), K(0), B) + lamp("l2", K(0), K(1), ["cmp", ">", ["bin", "+", A, B], K(3)]) + [["sig", "o", ["proj", ["bin", "*", A, B], "signal-X"]]])
    add("far-corners", lamp("l0", K(-40), K(-40), A) + lamp("l1", K(40), K(40), A) + lamp("l2", K(-40), K(40), B) + lamp("l3", K(40), K(-40), B))
    add("row-60", [["for", "i", ["range", 0, 60, None], lamp("l", I, K(0), ["cmp", ">", A, I])]], single_outcome=True)
    return progs


def corpus_c09(tier):
    progs = fam_places_fixed()
    cases = _layout_cases(progs, tier, quick_builds=("opt", "opt+medium", "opt+substation"), quick_unknown=(0, 3), all_unknown=(0, 3))
    if tier == "thorough":
        I = V("i")
        ins = [["input", "a", "signal-A", 10007]]
        for n, w in ((200, 20), (520, 26), (1000, 40)):
            body = [["for", "i", ["range", 0, n // w, None], [["for", "j", ["range", 0, w, None], [["place", "l", "small-lamp", V("j"), I, None]]]]]]
            cases.append({"id": f"zbig-{n}|opt|u0", "family": "big", "kind": "layout", "stmts": ins + body, "params": {"builds": [OPT], "unknown_first": [0], "e3": False, "check_entities": False}})
    return cases


def fam_power_fixed():
    A, B = V("a"), V("b")
    ins = [["input", "a", "signal-A", 10007], ["input", "b", "signal-B", 10009]]
    P = lambda e, t="signal-X": ["proj", e, t]  # noqa: E731
    progs = []

    def add(name, body, **params):
        params["power"] = True
        progs.append({"id": f"wfixed-{name}", "family": "fixed", "kind": "layout", "stmts": ins + body, "params": params})

    def lamps(pts, cond=lambda j: ["cmp", ">", A, K(j + 5)], pre="l"):
        out = []
        for j, (x, y) in enumerate(pts):
            out += [["place", f"{pre}{j}", "small-lamp", K(x), K(y), None], ["enable", f"{pre}{j}", cond(j)]]
        return out

    add("compact", [["sig", "o", P(["bin", "+", ["bin", "*", A, K(3)], B])], ["sig", "p", P(["cmp", ">", A, B], "signal-Y")]])
    add("five-combinators", [["sig", "o", P(["bin", "%", ["bin", "+", ["bin", "*", A, K(3)], ["bin", "-", B, K(1)]], K(7)])], ["sig", "q", ["cond", ["cmp", ">", A, K(3)], B]]])
    add("lamps-near", lamps([(0, 0), (2, 0), (4, 0)]))
    add("lamps-far", lamps([(0, 0), (22, 0)]))
    add("lamps-far-neg", lamps([(-20, -6), (8, 3)]))
    add("row-12", lamps([(i, 0) for i in range(12)]))
    add("column-12", lamps([(0, i) for i in range(12)]))
    add("column-34", lamps([(0, i) for i in range(0, 34, 2)]))
    add("row-34", lamps([(i, 0) for i in range(0, 34, 2)]))
    add("negative-block", lamps([(-10, -10), (-9, -10), (-10, -9), (-9, -9)]))
    add("offset-far", lamps([(50, 50), (52, 50)]))
    add("mixed", [["place", "i0", "inserter", K(0), K(0), None], ["enable", "i0", ["cmp", ">", A, K(1)]], ["place", "am", "assembling-machine-1", K(3), K(0), None], ["enable", "am", ["cmp", ">", B, K(1)]], ["place", "ch", "steel-chest", K(7), K(0), None], ["place", "pm", "pump", K(9), K(0), None]])
    add("user-poles", lamps([(0, 0), (2, 0)]) + [["place", "up1", "medium-electric-pole", K(20), K(1), None], ["place", "up2", "small-electric-pole", K(-9), K(6), None], ["place", "up3", "big-electric-pole", K(10), K(10), None], ["place", "up4", "substation", K(-12), K(-12), None]])
    add("signal-const-coordinates", [["sigconst", "left", 2], ["sigconst", "org", 0], ["sigconst", "top", 1]] + [s_ for j in range(4) for s_ in ([["place", f"l{j}", "small-lamp", ["bin", "+", V("left"), K(j * 2)], ["bin", "+", V("top"), K(1)], None], ["enable", f"l{j}", ["cmp", ">", A, K(j)]]])]
        + [["place", "z0", "small-lamp", ["bin", "+", V("org"), K(2)], ["bin", "+", V("org"), K(6)], None], ["place", "z1", "small-lamp", ["bin", "*", V("left"), V("org")], ["bin", "+", V("top"), K(8)], None]])
    add("signal-const-noncommutative", [["sigconst", "wd", 16], ["sigconst", "right", 12]] + lamps([(i * 2, 0) for i in range(8)]) + [["place", "endm", "small-lamp", ["bin", "-", V("wd"), K(1)], K(0), None], ["enable", "endm", ["cmp", ">", B, K(0)]],
                                        ["place", "err", "small-lamp", ["bin", "-", V("right"), K(3)], K(2), None], ["enable", "err", ["cmp", "<", B, K(0)]], ["place", "half", "small-lamp", ["bin", "/", V("wd"), K(2)], K(4), None], ["enable", "half", ["cmp", ">", A, K(0)]]])
    add("signal-const-noncommutative-2", [["sigconst", "wd", 24]] + lamps([(0, 0), (2, 0)]) + [["place", "endm", "small-lamp", ["bin", "-", V("wd"), K(20)], K(2), None], ["enable", "endm", ["cmp", ">", B, K(0)]], ["place", "q", "small-lamp", ["bin", "%", V("wd"), K(5)], K(4), None], ["enable", "q", ["cmp", ">", B, K(1)]]])
    add("memory", [["mem", "m", "signal-M"], ["write", "m", P(A, "signal-M"), ["cmp", ">", B, K(0)]], ["sig", "r0", ["read", "m"]]] + lamps([(0, 0)], cond=lambda j: ["cmp", ">", ["read", "m"], K(3)]), K=3)
    body = []
    for i in range(10):
        body.append(["sig", f"o{i}", P(["bin", "+", ["bin", "*", A, K(i + 2)], B], f"signal-{chr(ord('C') + i)}")])
    add("twenty-combinators", body)
    return progs


POWER_BUILDS = [{"tag": f"opt+{t}", "optimize": True, "poles": t} for t in ("small", "medium", "big", "substation")]


def corpus_c18(tier):
    progs = fam_power_fixed()
    cases = _layout_cases(progs, tier, quick_builds=("opt", "opt+small", "opt+medium", "opt+big", "opt+substation"), quick_unknown=(0,), all_builds=[OPT] + POWER_BUILDS, all_unknown=(0, 3), extra={"e3": False, "ref_check": False})
    # adding poles changes neither behaviour nor user entities: build with poles == build without (all inputs)
    for c in progs:
        pairs = [{"a": {"stmts": c["stmts"], "build": b, "label": b["tag"]}, "b": {"stmts": c["stmts"], "build": OPT, "label": "no poles"}, "tag": f"{b['tag']}-vs-none"} for b in POWER_BUILDS]
        params = {"K": c["params"]["K"]} if c["params"].get("K") else {}
        params["acceptance_must_agree"] = False
        cases.append({"id": c["id"].replace("wfixed-", "wequiv-"), "family": "fixed", "kind": "equiv", "pairs": pairs, "params": params})
    return cases
