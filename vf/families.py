"""Program families (own AST, see vf.gen).  Deterministic: every family is a pure function of its
index; curated corpora written by tools/curate.py are stored under /verif/corpus/*.json.
"""
from __future__ import annotations

import random

ARITH = ["+", "-", "*", "/", "%", "**", "<<", ">>", "AND", "OR", "XOR"]
CMPS = ["==", "!=", "<", "<=", ">", ">="]
BOUNDARY = [0, 1, -1, 2, 3, 7, 31, 32, 100, -100, 255, 32768, 65536, 2147483647, -2147483647, -2147483648]
SMALL = [0, 1, -1, 2, 3, 5, 7, 10, -3, 100]
OUT_SIGS = ["signal-X", "signal-Y", "signal-Z", "signal-V", "signal-U"]

# defaults are sentinels (distinct primes that occur nowhere else): they identify the input's constant
# combinator independently of its label
INPUT_POOL = [
    ("a", "signal-A", 10007),
    ("b", "signal-B", 10009),
    ("c", "iron-plate", 10037),
    ("d", "signal-A", 10039),  # same type as a: two-colour cases
    ("u", None, 10061),  # untyped: compiler-chosen signal
    ("w", "water", 10067),
]


def V(n):
    return ["v", n]


def K(n):
    return ["k", n]


class ExprGen:
    def __init__(self, rnd, inputs, names=()):
        self.r = rnd
        self.inputs = list(inputs)
        self.names = list(names)

    def const(self, table=None):
        return K(self.r.choice(table or (SMALL if self.r.random() < 0.7 else BOUNDARY)))

    def leaf_sig(self):
        pool = self.inputs + self.names
        return V(self.r.choice(pool))

    def leaf(self):
        return self.leaf_sig() if self.r.random() < 0.72 else self.const()

    def sig(self, depth):
        """an expression that is signal-valued (contains at least one signal leaf)"""
        r = self.r
        if depth <= 0:
            return self.leaf_sig()
        kind = r.choices(
            ["bin", "cmp", "logic", "not", "neg", "proj", "cond", "leaf"],
            weights=[40, 14, 10, 4, 5, 8, 12, 7],
        )[0]
        if kind == "leaf":
            return self.leaf_sig()
        if kind == "bin":
            op = r.choice(ARITH)
            left_sig = r.random() < 0.8
            l = self.sig(depth - 1) if left_sig else self.const()
            if op == "**":
                rr = K(r.choice([0, 1, 2, 3, 4])) if r.random() < 0.8 or not left_sig else self.sig(depth - 1)
            elif op in ("<<", ">>"):
                rr = K(r.choice([0, 1, 2, 5, 16, 31])) if r.random() < 0.75 or not left_sig else self.sig(depth - 1)
            else:
                rr = self.sig(depth - 1) if (not left_sig or r.random() < 0.5) else self.const()
            if not left_sig and rr[0] == "k":
                rr = self.sig(depth - 1)
            return ["bin", op, l, rr]
        if kind == "cmp":
            return self.cmp(depth)
        if kind == "logic":
            return [r.choice(["and", "or", "and", "or", "andw", "orw"]), self.boolish(depth - 1), self.boolish(depth - 1)]
        if kind == "not":
            return ["not", self.sig(depth - 1)]
        if kind == "neg":
            return ["neg", self.sig(depth - 1)]
        if kind == "proj":
            return ["proj", self.sig(depth - 1), r.choice(["signal-P", "signal-Q", "copper-plate", "signal-A"])]
        if kind == "cond":
            c = self.cmp(depth - 1) if r.random() < 0.7 else [r.choice(["and", "or"]), self.cmp(depth - 1), self.cmp(depth - 1)]
            v = self.leaf() if r.random() < 0.6 else self.sig(depth - 1)
            return ["cond", c, v]
        raise AssertionError

    def cmp(self, depth):
        r = self.r
        op = r.choice(CMPS)
        if r.random() < 0.12:
            return ["cmp", op, self.const(), self.sig(max(depth - 1, 0))]
        l = self.sig(max(depth - 1, 0))
        rr = self.const() if r.random() < 0.55 else self.sig(max(depth - 1, 0))
        return ["cmp", op, l, rr]

    def boolish(self, depth):
        return self.cmp(depth) if self.r.random() < 0.7 else self.sig(depth)


def fam_expr(index, depth=None):
    """C01: one or two outputs over 1..4 inputs; random operator DAGs with named, reused intermediates."""
    rnd = random.Random(f"expr-{index}")
    n_in = rnd.choice([1, 2, 2, 3, 3, 4])
    pool = list(INPUT_POOL)
    rnd.shuffle(pool)
    if index % 3 == 0:  # keep the plain a/b/c case frequent
        pool = INPUT_POOL[:3] + pool
    ins = []
    for p in pool:
        if p[0] not in [x[0] for x in ins]:
            ins.append(p)
        if len(ins) == n_in:
            break
    stmts = [["input", n, t, dflt] for (n, t, dflt) in ins]
    g = ExprGen(rnd, [n for (n, _t, _d) in ins])
    depth = depth if depth is not None else rnd.choice([1, 2, 2, 3, 3])
    n_mid = rnd.choice([0, 0, 1, 1, 2])
    for i in range(n_mid):
        name = f"m{i}"
        stmts.append(["sig", name, g.sig(rnd.choice([1, 2]))])
        g.names.append(name)
        if rnd.random() < 0.5:
            g.names.append(name)  # favour reuse
    n_out = rnd.choice([1, 1, 2])
    for i in range(n_out):
        e = g.sig(depth)
        # (cond : v) | "T" is miscompiled on the pinned tree (copy-count of the projected signal);
        # keep a few of those, project the rest through an addition-free path only when not a cond
        if rnd.random() < (0.1 if e[0] == "cond" else 0.7):
            e = ["proj", e, OUT_SIGS[i]]
        stmts.append(["sig", f"o{i}", e])
    return {"id": f"expr-{index:04d}", "family": "expr", "stmts": stmts}


def fam_expr_fixed():
    """hand-written C01 programs: one representative per construct / documented rule"""
    A, B, C = V("a"), V("b"), V("c")
    ins3 = [["input", "a", "signal-A", 10007], ["input", "b", "signal-B", 10009], ["input", "c", "iron-plate", 10037]]
    progs = []

    def add(name, body, ins=ins3):
        progs.append({"id": f"fixed-{name}", "family": "fixed", "stmts": list(ins) + body})

    for op in ARITH:
        rhs = K(3) if op in ("**", "<<", ">>") else B
        add(f"op-{op}", [["sig", "o", ["proj", ["bin", op, A, rhs], "signal-X"]]])
        add(f"opk-{op}", [["sig", "o", ["bin", op, A, K(5)]]])
        if op not in ("**",):
            add(f"kop-{op}", [["sig", "o", ["bin", op, K(1000), A]]])
    for op in CMPS:
        add(f"cmp-{op}", [["sig", "o", ["proj", ["cmp", op, A, B], "signal-X"]]])
        add(f"cmpk-{op}", [["sig", "o", ["cmp", op, A, K(7)]]])
        add(f"cond-{op}", [["sig", "o", ["cond", ["cmp", op, A, K(7)], C]]])
        add(f"condk-{op}", [["sig", "o", ["proj", ["cond", ["cmp", op, A, B], K(42)], "signal-X"]]])
    add("and", [["sig", "o", ["proj", ["and", ["cmp", ">", A, K(0)], ["cmp", "<", B, K(9)]], "signal-X"]]])
    add("or", [["sig", "o", ["proj", ["or", ["cmp", ">", A, K(0)], ["cmp", "<", B, K(9)]], "signal-X"]]])
    add("andw", [["sig", "o", ["proj", ["andw", A, B], "signal-X"]]])
    add("orw", [["sig", "o", ["proj", ["orw", A, B], "signal-X"]]])
    add("not", [["sig", "o", ["proj", ["not", A], "signal-X"]]])
    add("notcmp", [["sig", "o", ["proj", ["not", ["cmp", "==", A, K(0)]], "signal-X"]]])
    add("neg", [["sig", "o", ["neg", A]]])
    add("negexpr", [["sig", "o", ["proj", ["neg", ["bin", "+", A, B]], "signal-X"]]])
    add("proj", [["sig", "o", ["proj", C, "signal-X"]]])
    add("projsame", [["sig", "o", ["proj", A, "signal-A"]]])
    add("typeof", [["sig", "o", ["proj", ["bin", "+", B, K(1)], ["typeof", "c"]]]])
    add("littypeof", [["sig", "t", ["lit", ["typeof", "c"], K(42)]], ["sig", "o", ["bin", "+", V("t"), C]]])
    add("lit", [["sig", "o", ["bin", "+", ["lit", "signal-A", ["bin", "-", ["bin", "*", K(5), K(2)], K(9)]], A]]])
    add("left-type", [["sig", "o", ["bin", "+", C, A]]])
    add("left-type2", [["sig", "o", ["bin", "-", A, C]]])
    add("prec1", [["sig", "o", ["proj", ["bin", "+", A, ["bin", "*", B, K(3)]], "signal-X"]]])
    add("prec2", [["sig", "o", ["proj", ["bin", "*", ["bin", "+", A, B], K(3)], "signal-X"]]])
    add("prec3", [["sig", "o", ["proj", ["bin", "-", ["bin", "-", A, B], K(3)], "signal-X"]]])
    add("prec4", [["sig", "o", ["proj", ["bin", "-", A, ["bin", "-", B, K(3)]], "signal-X"]]])
    add("prec5", [["sig", "o", ["proj", ["bin", "**", K(2), ["bin", "**", K(3), K(2)]], "signal-X"]], ["sig", "o2", ["bin", "+", V("o"), A]]])
    add("prec6", [["sig", "o", ["proj", ["bin", "OR", A, ["bin", "AND", B, K(12)]], "signal-X"]]])
    add("prec7", [["sig", "o", ["proj", ["bin", "AND", ["bin", "OR", A, B], K(12)], "signal-X"]]])
    add("prec8", [["sig", "o", ["proj", ["bin", "XOR", A, ["bin", "<<", B, K(2)]], "signal-X"]]])
    add("prec9", [["sig", "o", ["proj", ["bin", "<<", ["bin", "+", A, K(1)], K(2)], "signal-X"]]])
    add("prec10", [["sig", "o", ["proj", ["bin", "+", A, ["bin", "<<", K(1), K(2)]], "signal-X"]]])
    add("prec11", [["sig", "o", ["proj", ["cmp", "<", ["bin", "+", A, K(1)], ["bin", "*", B, K(2)]], "signal-X"]]])
    add("prec12", [["sig", "o", ["proj", ["bin", "/", ["bin", "/", A, K(7)], K(2)], "signal-X"]]])
    add("prec13", [["sig", "o", ["proj", ["bin", "/", A, ["bin", "/", K(70), K(2)]], "signal-X"]]])
    add("prec14", [["sig", "o", ["proj", ["bin", "%", ["bin", "*", A, K(3)], K(7)], "signal-X"]]])
    add("prec15", [["sig", "o", ["proj", ["bin", "**", ["neg", A], K(2)], "signal-X"]]])
    add("prec16", [["sig", "o", ["proj", ["neg", ["bin", "**", A, K(2)]], "signal-X"]]])
    add("reuse", [["sig", "m", ["bin", "+", A, B]], ["sig", "o", ["proj", ["bin", "*", V("m"), V("m")], "signal-X"]]])
    add("reuse2", [["sig", "m", ["bin", "*", A, K(3)]], ["sig", "o", ["proj", ["bin", "+", ["bin", "+", V("m"), V("m")], V("m")], "signal-X"]]])
    add("same-type", [["sig", "o", ["bin", "-", A, V("d")]]], ins=ins3 + [["input", "d", "signal-A", 10039]])
    add("same-type2", [["sig", "o", ["proj", ["bin", "*", ["bin", "+", A, V("d")], ["bin", "-", A, V("d")]], "signal-X"]]], ins=ins3 + [["input", "d", "signal-A", 10039]])
    add("sel-pattern", [["sig", "o", ["proj", ["bin", "+", ["cond", ["cmp", ">", A, K(0)], B], ["cond", ["cmp", "<=", A, K(0)], C]], "signal-X"]]])
    add("clamp", [["sig", "o", ["proj", ["bin", "+", ["cond", ["cmp", ">", A, K(100)], K(100)], ["cond", ["cmp", "<=", A, K(100)], A]], "signal-X"]]])
    add("int-var", [["int", "k", ["bin", "+", K(4), K(3)]], ["sig", "o", ["proj", ["bin", "*", A, V("k")], "signal-X"]]])
    add("untyped", [["sig", "o", ["bin", "+", V("u"), K(1)]]], ins=[["input", "u", None, 10061]])
    add("untyped2", [["sig", "o", ["proj", ["bin", "*", V("u"), A], "signal-X"]]], ins=ins3 + [["input", "u", None, 10061]])
    add("multi-out", [["sig", "o", ["proj", ["bin", "+", A, B], "signal-X"]], ["sig", "p", ["proj", ["bin", "-", A, B], "signal-Y"]], ["sig", "q", ["proj", ["bin", "*", A, B], "signal-Z"]]])
    add("cond-compound", [["sig", "o", ["cond", ["and", ["cmp", ">", A, K(3)], ["cmp", "<", B, K(9)]], C]]])
    add("cond-or", [["sig", "o", ["cond", ["or", ["cmp", ">", A, K(3)], ["cmp", "<", B, K(9)]], C]]])
    add("cond-mixed", [["sig", "o", ["proj", ["cond", ["or", ["and", ["cmp", ">", A, K(3)], ["cmp", "<", B, K(9)]], ["cmp", "==", C, K(1)]], A], "signal-X"]]])
    add("cond-ident", [["sig", "f", ["cmp", ">", A, K(3)]], ["sig", "o", ["proj", ["cond", ["cmp", ">", V("f"), K(0)], B], "signal-X"]]])
    add("int-left-cmp", [["sig", "o", ["proj", ["cmp", "!=", K(-2), A], "signal-X"]]])
    add("int-left-lt", [["sig", "o", ["proj", ["cmp", "<", K(5), A], "signal-X"]]])
    add("divmul", [["sig", "o", ["proj", ["bin", "*", ["bin", "/", A, B], B], "signal-X"]]])
    add("alias", [["sig", "o", A]])
    add("const-out", [["sig", "o", ["lit", "signal-X", K(42)]]])
    return progs


def corpus_c01(tier):
    n = 60 if tier == "quick" else 400
    return fam_expr_fixed() + [fam_expr(i) for i in range(n)]


# ======================================================================================
#  C02 bundles
# ======================================================================================

B_INPUTS = [("a", "signal-A", 10007), ("c", "iron-plate", 10037), ("p", "copper-plate", 10069), ("s", "signal-S", 10079), ("t", "signal-A", 10091), ("w", "water", 10067)]
B_CONST_MEMBERS = [("signal-B", 5), ("coal", -3), ("signal-C", 0), ("steel-plate", 100), ("signal-D", -2147483648), ("wood", 7)]


def _bundle_literal(rnd, ins, avoid=()):
    """returns (expr, member signal set)"""
    members, elems = set(avoid), []
    style = rnd.choice(["const", "inputs", "mixed", "mixed"])
    n = rnd.choice([1, 2, 2, 3])
    for _ in range(n):
        if style == "const" or (style == "mixed" and rnd.random() < 0.5):
            cands = [m for m in B_CONST_MEMBERS if m[0] not in members]
            if not cands:
                continue
            sig, val = rnd.choice(cands)
            elems.append(["lit", sig, K(val)])
            members.add(sig)
        else:
            cands = [(n_, t) for (n_, t, _d) in ins if t not in members and n_ not in ("s", "t")]
            if not cands:
                continue
            n_, t = rnd.choice(cands)
            elems.append(V(n_))
            members.add(t)
    if not elems:
        elems.append(["lit", "signal-B", K(5)])
        members.add("signal-B")
    return ["bundle", elems], members - set(avoid)


def fam_bundle(index):
    rnd = random.Random(f"bundle-{index}")
    ins = [B_INPUTS[0], B_INPUTS[1]] + rnd.sample(B_INPUTS[2:], rnd.choice([1, 2, 3]))
    names = [n for (n, _t, _d) in ins]
    stmts = [["input", n, t, d] for (n, t, d) in ins]
    lit, members = _bundle_literal(rnd, ins)
    stmts.append(["bun", "b0", lit])
    cur, k = "b0", 0
    scalars = [n for n in names if n in ("s", "t", "w")] or ["a"]

    def scalar():
        return V(rnd.choice(scalars)) if rnd.random() < 0.5 else K(rnd.choice(SMALL + [-2147483648, 2147483647]))

    steps = rnd.choice([1, 1, 2, 2, 3])
    for _ in range(steps):
        kind = rnd.choice(["arith", "arith", "filter", "filterk", "gate", "nest"])
        k += 1
        name = f"b{k}"
        if kind == "arith":
            op = rnd.choice(ARITH)
            rhs = scalar()
            if op == "**":
                rhs = K(rnd.choice([0, 1, 2, 3]))
            if op in ("<<", ">>") and rhs[0] == "k":
                rhs = K(rnd.choice([0, 1, 4, 31]))
            stmts.append(["bun", name, ["bin", op, V(cur), rhs]])
        elif kind == "filter":
            stmts.append(["bun", name, ["cond", ["cmp", rnd.choice(CMPS), V(cur), scalar()], V(cur)]])
        elif kind == "filterk":
            stmts.append(["bun", name, ["cond", ["cmp", rnd.choice(CMPS), V(cur), scalar()], K(rnd.choice([1, 1, 5, -1]))]])
        elif kind == "gate":
            stmts.append(["bun", name, ["cond", ["cmp", rnd.choice(CMPS), V(rnd.choice(scalars)), K(rnd.choice(SMALL))], V(cur)]])
        else:
            lit2, m2 = _bundle_literal(rnd, ins, avoid=members)
            if not m2:
                k -= 1
                continue
            members |= m2
            stmts.append(["bun", name, ["bundle", [V(cur)] + lit2[1]]])
        cur = name
    tail = rnd.choice(["none", "any", "all", "sel", "anyall"])
    if tail in ("any", "anyall"):
        stmts.append(["sig", "q_any", ["cmp", rnd.choice(CMPS), ["any", V(cur)], K(rnd.choice(SMALL))]])
    if tail in ("all", "anyall"):
        stmts.append(["sig", "q_all", ["cmp", rnd.choice(CMPS), ["all", V(cur)], K(rnd.choice(SMALL))]])
    if tail == "sel":
        stmts.append(["sig", "q_sel", ["sel", V(cur), rnd.choice(sorted(members))]])
        stmts.append(["sig", "q_use", ["proj", ["bin", "+", V("q_sel"), K(1)], "signal-X"]])
    if tail != "none" and rnd.random() < 0.5:
        stmts.append(["bun", "keep", ["bin", "+", V(cur), K(0)]])
    return {"id": f"bundle-{index:04d}", "family": "bundle", "stmts": stmts}


def fam_bundle_fixed():
    ins = [["input", n, t, d] for (n, t, d) in B_INPUTS[:5]]
    L3 = ["bundle", [["lit", "signal-B", K(5)], ["lit", "coal", K(-3)], ["lit", "steel-plate", K(100)]]]
    LIN = ["bundle", [V("a"), V("c"), V("p")]]
    LMIX = ["bundle", [V("a"), ["lit", "coal", K(4)]]]
    progs = []

    def add(name, body):
        progs.append({"id": f"bfixed-{name}", "family": "fixed", "stmts": list(ins) + body})

    for nm, lit in (("const", L3), ("in", LIN), ("mix", LMIX)):
        add(f"lit-{nm}", [["bun", "b", lit]])
        for op in ARITH:
            rhs = K(3) if op in ("**", "<<", ">>") else K(7)
            add(f"{nm}-opk-{op}", [["bun", "b", lit], ["bun", "r", ["bin", op, V("b"), rhs]]])
        for op in ("+", "*", "-", "/", "AND"):
            add(f"{nm}-ops-{op}", [["bun", "b", lit], ["bun", "r", ["bin", op, V("b"), V("s")]]])
            add(f"{nm}-opt-{op}", [["bun", "b", lit], ["bun", "r", ["bin", op, V("b"), V("t")]]])  # scalar's signal is also a member
        for op in CMPS:
            add(f"{nm}-filter-{op}", [["bun", "b", lit], ["bun", "r", ["cond", ["cmp", op, V("b"), K(4)], V("b")]]])
            add(f"{nm}-filterk-{op}", [["bun", "b", lit], ["bun", "r", ["cond", ["cmp", op, V("b"), K(4)], K(1)]]])
            add(f"{nm}-filters-{op}", [["bun", "b", lit], ["bun", "r", ["cond", ["cmp", op, V("b"), V("s")], V("b")]]])
            add(f"{nm}-gate-{op}", [["bun", "b", lit], ["bun", "r", ["cond", ["cmp", op, V("s"), K(4)], V("b")]]])
            add(f"{nm}-any-{op}", [["bun", "b", lit], ["sig", "r", ["cmp", op, ["any", V("b")], K(4)]]])
            add(f"{nm}-all-{op}", [["bun", "b", lit], ["sig", "r", ["cmp", op, ["all", V("b")], K(4)]]])
        add(f"{nm}-sel", [["bun", "b", lit], ["sig", "r", ["proj", ["bin", "*", ["sel", V("b"), "coal" if nm != "in" else "iron-plate"], K(2)], "signal-X"]]])
    add("nested", [["bun", "b", LIN], ["bun", "n", ["bundle", [V("b"), ["lit", "coal", K(3)]]]], ["bun", "r", ["bin", "*", V("n"), K(2)]]])
    add("nested2", [["bun", "b", L3], ["bun", "b2", ["bundle", [V("a"), V("c")]]], ["bun", "n", ["bundle", [V("b"), V("b2")]]]])
    add("zero-all", [["bun", "b", ["bundle", [["lit", "signal-B", K(0)], ["lit", "coal", K(0)]]]], ["sig", "r", ["cmp", ">", ["all", V("b")], K(5)]], ["sig", "r2", ["cmp", ">", ["any", V("b")], K(5)]]])
    add("chain", [["bun", "b", LIN], ["bun", "x", ["bin", "*", V("b"), K(2)]], ["bun", "y", ["cond", ["cmp", ">", V("x"), K(10)], V("x")]], ["bun", "z", ["bin", "-", V("y"), V("s")]]])
    add("two-users", [["bun", "b", LIN], ["bun", "x", ["bin", "*", V("b"), K(2)]], ["bun", "y", ["bin", "+", V("b"), K(1)]]])
    add("computed-member", [["sig", "m", ["bin", "*", V("a"), K(2)]], ["bun", "b", ["bundle", [V("m"), V("c")]]], ["bun", "r", ["bin", "+", V("b"), K(1)]]])
    add("wm-member", [["sig", "m", ["bin", "+", V("a"), V("t")]], ["bun", "b", ["bundle", [V("m"), ["lit", "signal-B", K(4)]]]], ["bun", "r", ["bin", "*", V("b"), K(3)]]])
    add("empty", [["bun", "b", ["bundle", []]], ["bun", "r", ["bin", "+", V("b"), K(1)]]])
    return progs


def corpus_c02(tier):
    n = 50 if tier == "quick" else 300
    fixed = fam_bundle_fixed()
    if tier == "quick":
        fixed = [c for i, c in enumerate(fixed) if i % 3 == 0 or "mix" in c["id"] or not c["id"].split("-")[1] in ("const", "in", "mix")]
    return fixed + [fam_bundle(i) for i in range(n)]


# ======================================================================================
#  C03 gated memory cells
# ======================================================================================

M_INPUTS = [("x", "signal-A", 10007), ("y", "signal-B", 10009), ("z", "iron-plate", 10037)]


def _mem_prog(name, data, enable, mtype="signal-M", readers=1, extra=None, inputs=M_INPUTS, fam="mem"):
    stmts = [["input", n, t, d] for (n, t, d) in inputs]
    stmts.append(["mem", "m", mtype])
    stmts.append(["write", "m", data, enable])
    for i in range(readers):
        if i == 0:
            stmts.append(["sig", "r0", ["read", "m"]])
        elif i == 1:
            stmts.append(["sig", "r1", ["proj", ["bin", "+", ["read", "m"], K(1)], "signal-X"]])
        else:
            stmts.append(["sig", f"r{i}", ["proj", ["bin", "*", ["read", "m"], K(i)], "signal-Y"]])
    if extra:
        stmts += extra
    return {"id": name, "family": fam, "stmts": stmts, "kind": "history"}


def fam_mem_fixed():
    X, Y, Z = V("x"), V("y"), V("z")
    P = lambda e, t="signal-M": ["proj", e, t]  # noqa: E731
    progs = []
    progs.append(_mem_prog("mfixed-basic", P(X), ["cmp", ">", Y, K(0)], fam="fixed"))
    progs.append(_mem_prog("mfixed-ident-enable", P(X), Y, fam="fixed"))
    progs.append(_mem_prog("mfixed-typed-data", X, ["cmp", ">", Y, K(5)], mtype="signal-A", fam="fixed"))
    progs.append(_mem_prog("mfixed-item-type", P(X, "iron-plate"), ["cmp", "!=", Y, K(0)], mtype="iron-plate", fam="fixed"))
    progs.append(_mem_prog("mfixed-untyped-mem", P(X, "signal-Q"), ["cmp", ">", Y, K(0)], mtype=None, fam="fixed"))
    progs.append(_mem_prog("mfixed-shared-input", P(["bin", "*", X, K(2)]), ["cmp", ">", X, K(10)], fam="fixed"))
    progs.append(_mem_prog("mfixed-shared-deep-enable", P(X), ["cmp", ">", ["bin", "-", ["bin", "*", X, K(3)], K(4)], K(5)], fam="fixed"))
    progs.append(_mem_prog("mfixed-deep-data", P(["bin", "+", ["bin", "*", X, K(3)], Z]), ["cmp", ">", Y, K(0)], fam="fixed"))
    progs.append(_mem_prog("mfixed-deep-enable", P(X), ["cmp", ">", ["bin", "+", ["bin", "*", Y, K(3)], K(1)], K(5)], fam="fixed"))
    progs.append(_mem_prog("mfixed-arith-enable", P(X), ["bin", "-", Y, K(3)], fam="fixed"))
    progs.append(_mem_prog("mfixed-two-readers", P(X), ["cmp", ">", Y, K(0)], readers=2, fam="fixed"))
    progs.append(_mem_prog("mfixed-three-readers", P(X), ["cmp", ">", Y, K(0)], readers=3, fam="fixed"))
    progs.append(_mem_prog("mfixed-and-enable", P(X), ["and", ["cmp", ">", Y, K(0)], ["cmp", "<", Z, K(100)]], fam="fixed"))
    progs.append(_mem_prog("mfixed-const-data", ["lit", "signal-M", K(42)], ["cmp", ">", Y, K(0)], fam="fixed"))
    progs.append(_mem_prog("mfixed-enable-same-type", P(X, "signal-B"), ["cmp", ">", Y, K(0)], mtype="signal-B", fam="fixed"))
    # two cells sharing an enable
    two = _mem_prog("mfixed-two-cells", P(X), ["cmp", ">", Y, K(0)], fam="fixed")
    two["stmts"] += [["mem", "n", "signal-N"], ["write", "n", P(Z, "signal-N"), ["cmp", ">", Y, K(0)]], ["sig", "s0", ["read", "n"]]]
    progs.append(two)
    two2 = _mem_prog("mfixed-two-cells-same-type", P(X), ["cmp", ">", Y, K(0)], fam="fixed")
    two2["stmts"] += [["mem", "n", "signal-M"], ["write", "n", P(Z, "signal-M"), ["cmp", "<", Y, K(0)]], ["sig", "s0", ["proj", ["read", "n"], "signal-Y"]]]
    progs.append(two2)
    named_en = _mem_prog("mfixed-named-enable", P(X), V("en"), fam="fixed")
    named_en["stmts"].insert(3, ["sig", "en", ["cmp", ">", Y, K(0)]])
    progs.append(named_en)
    return progs


def fam_mem(index):
    rnd = random.Random(f"mem-{index}")
    g = ExprGen(rnd, ["x", "y", "z"])
    share = rnd.random() < 0.4
    dgen = ExprGen(rnd, ["x", "z"] if not share else ["x", "y", "z"])
    egen = ExprGen(rnd, ["y"] if not share else ["x", "y"])
    ddepth = rnd.choice([0, 0, 1, 1, 2])
    edepth = rnd.choice([0, 1, 1, 2])
    mtype = rnd.choice(["signal-M", "signal-M", "signal-A", "iron-plate", None])
    data = dgen.sig(ddepth)
    data = ["proj", data, mtype or "signal-Q"]
    enable = egen.cmp(edepth) if rnd.random() < 0.75 else egen.sig(edepth)
    c = _mem_prog(f"mem-{index:04d}", data, enable, mtype=mtype, readers=rnd.choice([1, 1, 2, 3]))
    return c


def corpus_c03(tier):
    n = 24 if tier == "quick" else 160
    return fam_mem_fixed() + [fam_mem(i) for i in range(n)]


# ======================================================================================
#  C04 self-referential unconditional writes
# ======================================================================================


def _loop_prog(name, body, readers=("r1",), mtype="signal-M", fam="loop", inputs=M_INPUTS[:2], extra_readers=True):
    stmts = [["input", n, t, d] for (n, t, d) in inputs]
    stmts.append(["mem", "m", mtype])
    stmts += body
    stmts.append(["sig", "r0", ["read", "m"]])
    rd = []
    if extra_readers:
        stmts.append(["sig", "r1", ["proj", ["bin", "+", ["read", "m"], K(1)], "signal-X"]])
        rd.append("r1")
    return {"id": name, "family": fam, "stmts": stmts, "kind": "loop", "params": {"readers": rd}}


def fam_loop_fixed():
    R = ["read", "m"]
    X, Y = V("x"), V("y")
    P = lambda e, t="signal-M": ["proj", e, t]  # noqa: E731
    progs = []

    def add(name, body, **kw):
        progs.append(_loop_prog(f"lfixed-{name}", body, fam="fixed", **kw))

    add("counter", [["write", "m", ["bin", "+", R, K(1)], None]])
    add("counter-item", [["write", "m", ["bin", "+", R, K(1)], None]], mtype="iron-plate")
    add("counter-untyped-mem", [["write", "m", ["proj", ["bin", "+", R, K(1)], "signal-Q"], None]], mtype=None)
    add("acc", [["write", "m", ["bin", "+", R, P(X)], None]])
    add("modclock", [["write", "m", ["bin", "%", ["bin", "+", R, K(1)], K(10)], None]])
    add("lcg", [["write", "m", ["bin", "%", ["bin", "+", ["bin", "*", R, K(3)], K(7)], K(17)], None]])
    add("lcg-input", [["write", "m", ["bin", "%", ["bin", "+", ["bin", "*", R, K(3)], P(X)], K(17)], None]])
    add("xorshift", [["write", "m", ["bin", "XOR", R, ["bin", "<<", ["bin", "+", R, K(1)], K(3)]], None]])
    add("chain3", [["sig", "s1", ["bin", "+", R, K(1)]], ["sig", "s2", ["bin", "*", V("s1"), K(3)]], ["sig", "s3", ["bin", "%", V("s2"), K(17)]], ["write", "m", V("s3"), None]])
    add("chain4", [["sig", "s1", ["bin", "+", R, K(1)]], ["sig", "s2", ["bin", "*", V("s1"), K(3)]], ["sig", "s3", ["bin", "%", V("s2"), K(17)]], ["sig", "s4", ["bin", "%", V("s3"), K(100)]], ["write", "m", V("s4"), None]])
    add("chain-proj", [["sig", "s1", ["proj", ["bin", "+", R, K(1)], "signal-T"]], ["sig", "s2", ["proj", ["bin", "*", V("s1"), K(5)], "signal-M"]], ["write", "m", V("s2"), None]])
    add("sub-input", [["write", "m", ["bin", "-", R, P(Y)], None]])
    add("mul2", [["write", "m", ["bin", "+", ["bin", "*", R, K(2)], K(1)], None]])
    add("twice-read", [["write", "m", ["bin", "+", ["bin", "+", R, R], K(1)], None]])
    add("no-extra-reader", [["write", "m", ["bin", "+", R, K(2)], None]], extra_readers=False)
    add("cond-reset", [["write", "m", ["cond", ["cmp", "<", R, K(9)], ["bin", "+", R, K(1)]], None]])
    return progs


def fam_loop(index):
    rnd = random.Random(f"loop-{index}")
    R = ["read", "m"]
    mtype = rnd.choice(["signal-M", "signal-M", "signal-A", "iron-plate"])
    steps = rnd.choice([1, 1, 2, 3, 4, 5])
    named = rnd.random() < 0.5
    body = []
    cur = R
    for i in range(steps):
        op = rnd.choice(["+", "+", "-", "*", "%", "/", "XOR", "AND", "OR", "<<", ">>"])
        if op in ("%", "/"):
            rhs = K(rnd.choice([3, 7, 10, 17, 100]))
        elif op in ("<<", ">>"):
            rhs = K(rnd.choice([1, 2, 3]))
        elif rnd.random() < 0.3:
            rhs = ["proj", V(rnd.choice(["x", "y"])), mtype]
        else:
            rhs = K(rnd.choice([1, 2, 3, 5, 7, 255, -1]))
        e = ["bin", op, cur, rhs]
        if named and i < steps - 1:
            body.append(["sig", f"s{i}", e])
            cur = V(f"s{i}")
        else:
            cur = e
    body.append(["write", "m", cur, None])
    return _loop_prog(f"loop-{index:04d}", body, mtype=mtype, extra_readers=rnd.random() < 0.6)


def corpus_c04(tier):
    n = 20 if tier == "quick" else 120
    return fam_loop_fixed() + [fam_loop(i) for i in range(n)]


# ======================================================================================
#  C05 set/reset latches
# ======================================================================================

L_INPUTS = [("t", "signal-T", 10007), ("u", "signal-U", 10009), ("v", "signal-V", 10037), ("s", "signal-S", 10039), ("r", "signal-R", 10061)]


def _latch_prog(name, val, st, rs, order, ins, mtype="signal-L", bools=(), fam="latch"):
    pool = {n: (n, t, d) for (n, t, d) in L_INPUTS}
    stmts = [["input"] + list(pool[n]) for n in ins]
    stmts.append(["mem", "m", mtype])
    stmts.append(["latch", "m", val, st, rs, order])
    stmts.append(["sig", "r0", ["read", "m"]])
    stmts.append(["sig", "r1", ["proj", ["cmp", ">", ["read", "m"], K(0)], "signal-X"]])
    return {"id": name, "family": fam, "stmts": stmts, "kind": "history", "params": {"bool_inputs": list(bools)}}


def fam_latch_fixed():
    T, U = V("t"), V("u")
    progs = []
    for order in ("sr", "rs"):
        # one shared input, inlinable comparisons
        for nm, (so, sc, ro, rc) in {
            "hyst": ("<", 20, ">=", 80),
            "hyst-rev": (">", 80, "<=", 20),
            "touch": ("<", 50, ">=", 50),
            "overlap": ("<", 50, ">=", 30),
            "overlap2": ("<=", 50, ">", 10),
            "eq": ("==", 5, "==", 7),
            "ne": ("!=", 5, "==", 5),
            "neg": ("<", -10, ">", 10),
        }.items():
            progs.append(_latch_prog(f"qfixed-{order}-{nm}", K(1), ["cmp", so, T, K(sc)], ["cmp", ro, T, K(rc)], order, ["t"], fam="fixed"))
        progs.append(_latch_prog(f"qfixed-{order}-v5", K(5), ["cmp", "<", T, K(20)], ["cmp", ">=", T, K(80)], order, ["t"], fam="fixed"))
        progs.append(_latch_prog(f"qfixed-{order}-vsig", ["proj", V("v"), "signal-L"], ["cmp", "<", T, K(20)], ["cmp", ">=", T, K(80)], order, ["t", "v"], fam="fixed"))
        progs.append(_latch_prog(f"qfixed-{order}-two-inputs", K(1), ["cmp", ">", T, K(10)], ["cmp", ">", U, K(10)], order, ["t", "u"], fam="fixed"))
        progs.append(_latch_prog(f"qfixed-{order}-two-inputs-v7", K(7), ["cmp", ">", T, K(10)], ["cmp", "<", U, K(0)], order, ["t", "u"], fam="fixed"))
        progs.append(_latch_prog(f"qfixed-{order}-bool", K(1), V("s"), V("r"), order, ["s", "r"], bools=("s", "r"), fam="fixed"))
        progs.append(_latch_prog(f"qfixed-{order}-bool-v9", K(9), V("s"), V("r"), order, ["s", "r"], bools=("s", "r"), fam="fixed"))
        progs.append(_latch_prog(f"qfixed-{order}-bool-celltype", K(1), ["proj", V("s"), "signal-L"], V("r"), order, ["s", "r"], bools=("s", "r"), fam="fixed"))
        progs.append(_latch_prog(f"qfixed-{order}-named-cmp", K(1), V("lo"), V("hi"), order, ["t"], fam="fixed"))
        progs[-1]["stmts"].insert(1, ["sig", "lo", ["cmp", "<", T, K(20)]])
        progs[-1]["stmts"].insert(2, ["sig", "hi", ["cmp", ">=", T, K(80)]])
        progs.append(_latch_prog(f"qfixed-{order}-item-type", K(1), ["cmp", "<", T, K(20)], ["cmp", ">=", T, K(80)], order, ["t"], mtype="iron-plate", fam="fixed"))
    return progs


def fam_latch(index):
    rnd = random.Random(f"latch-{index}")
    order = rnd.choice(["sr", "rs"])
    T, U = V("t"), V("u")
    shape = rnd.choice(["shared", "shared", "two", "bool"])
    val = rnd.choice([K(1), K(1), K(rnd.choice([2, 5, 100, -1])), ["proj", V("v"), "signal-L"]])
    ins = []
    bools = ()
    if shape == "shared":
        st = ["cmp", rnd.choice(CMPS), T, K(rnd.choice([-5, 0, 10, 20, 50]))]
        rs = ["cmp", rnd.choice(CMPS), T, K(rnd.choice([0, 30, 50, 80, 100]))]
        ins = ["t"]
    elif shape == "two":
        st = ["cmp", rnd.choice(CMPS), T, K(rnd.choice([0, 10, 50]))]
        rs = ["cmp", rnd.choice(CMPS), U, K(rnd.choice([0, 10, 50]))]
        ins = ["t", "u"]
    else:
        st, rs = V("s"), V("r")
        ins = ["s", "r"]
        bools = ("s", "r")
    if val[0] == "proj":
        ins.append("v")
    return _latch_prog(f"latch-{index:04d}", val, st, rs, order, ins, mtype=rnd.choice(["signal-L", "signal-L", "signal-P"]) if val[0] != "proj" else "signal-L", bools=bools)


def corpus_c05(tier):
    n = 16 if tier == "quick" else 120
    fixed = fam_latch_fixed()
    return fixed + [fam_latch(i) for i in range(n)]
