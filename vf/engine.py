"""Engine E1: translation validation of the emitted blueprint against the generator's own reference.

A Session couples one compiled blueprint (text returned by the real compiler) with the program's
own-AST; inputs, entity contents and (for histories) per-step input copies are solver variables.
"""
from __future__ import annotations

import math
import re
import time

import z3

from .bp import Circuit, Cyclic, Evaluator, Unsupported, proto_type
from .dom import IntDom, Z3Dom, wrap32
from .gen import Bun, Interp, RefError, Sig
from .report import seed as verif_seed

QUERY_TIMEOUT_MS = 60_000


def _desc_re(name, tail):
    return re.compile(r"^(?:\[[^\]]*\]\s*)?" + re.escape(name) + tail)


def entity_size(name, direction=0):
    """(w, h) in tiles from draftsman game data"""
    from draftsman.data import entities

    r = entities.raw.get(name) or {}
    if r.get("tile_width") and r.get("tile_height"):
        w, h = r["tile_width"], r["tile_height"]
    else:
        cb = r.get("collision_box") or [[-0.4, -0.4], [0.4, 0.4]]
        w = max(1, math.ceil(cb[1][0] - cb[0][0] - 1e-9))
        h = max(1, math.ceil(cb[1][1] - cb[0][1] - 1e-9))
    if direction in (4, 12):  # east / west in 2.0's 16-way encoding
        w, h = h, w
    return w, h


def top_left_tile(ent):
    w, h = entity_size(ent.name, ent.raw.get("direction", 0))
    return (int(round(ent.pos[0] - w / 2)), int(round(ent.pos[1] - h / 2)))


class Solve:
    """one z3 query with timeout; verdict in {'unsat','sat','unknown'}"""

    def __init__(self, constraints, timeout_ms=QUERY_TIMEOUT_MS):
        self.s = z3.Solver()
        self.s.set("timeout", timeout_ms)
        self.s.set("random_seed", verif_seed() % 10_000)
        for c in constraints:
            self.s.add(c)
        t0 = time.time()
        r = self.s.check()
        self.secs = time.time() - t0
        self.verdict = str(r)
        self.model = self.s.model() if self.verdict == "sat" else None


def corner_free(zd):
    """constraints saying that no uninterpreted corner (INT_MIN/-1, shift count outside 0..31,
    exponent outside 0..8) is exercised by any operator application built so far"""
    cs = []
    for (kind, a, b) in zd.corner_terms:
        if kind in ("div", "mod"):
            cs.append(z3.Not(z3.And(a == zd.const(-(2**31)), b == zd.const(-1))))
        elif kind in ("shl", "shr"):
            cs.append(z3.And(b >= 0, b <= 31))
        elif kind == "pow":
            cs.append(z3.And(b >= 0, b <= 8))
    return cs


def model_int(model, term):
    v = model.eval(term, model_completion=True)
    return wrap32(v.as_long())


class Session:
    def __init__(self, stmts, bp_json):
        self.stmts = stmts
        self.circ = Circuit(bp_json)
        self.zd = Z3Dom()
        self.problems = []  # closed-form structural problems found while binding (missing inputs...)
        self._bind_inputs()
        self._bind_entities()
        self.U = list(self.circ.universe)
        for s in self._program_signals():
            if s not in self.U:
                self.U.append(s)
        self._vars = {}

    # -------------------------------------------------------------- binding
    def _toplevel_inputs(self):
        return [s for s in self.stmts if s[0] == "input"]

    def _program_signals(self):
        sigs = []

        def walk(o):
            if isinstance(o, list):
                if o and o[0] in ("proj", "lit") and isinstance(o[1 if o[0] == "lit" else 2], str):
                    sigs.append(o[1 if o[0] == "lit" else 2])
                if o and o[0] == "sel":
                    sigs.append(o[2])
                if o and o[0] == "input" and o[2]:
                    sigs.append(o[2])
                if o and o[0] == "mem" and o[2]:
                    sigs.append(o[2])
                for x in o:
                    walk(x)

        walk(self.stmts)
        return sigs

    def _bind_inputs(self):
        """inputs are identified by their sentinel default value (and declared signal); the label
        `<name> (value=V (input))` is checked separately (C20) so that a labelling defect does not blind
        the value checks"""
        self.input_ents = {}  # ent num -> [input names]
        self.input_info = {}
        self.label_mismatch = []
        for (_k, name, T, default) in self._toplevel_inputs():
            rx = _desc_re(name, r" \(value=")
            cands = []
            for e in self.circ.ents.values():
                if e.kind != "const":
                    continue
                for (_a, _b, n, c) in self.circ.const_filters(e):
                    if c == default and (T is None or n == T):
                        cands.append(e)
                        break
            labelled = [e for e in cands if rx.match(e.desc)]
            if labelled:
                cands = labelled  # the label disambiguates equal sentinels (P||Q twins)
            if not cands:
                self.problems.append(("input-missing", name))
            elif not labelled:
                self.label_mismatch.append((name, [e.desc for e in cands]))
            for e in cands:
                self.input_ents.setdefault(e.num, []).append(name)
            self.input_info[name] = {"type": T, "default": default, "ents": [e.num for e in cands]}

    def _bind_entities(self):
        self.tile_ents = {}
        for e in self.circ.ents.values():
            if e.kind in ("other", "content"):
                self.tile_ents.setdefault((e.name,) + top_left_tile(e), []).append(e.num)

    # -------------------------------------------------------------- variables
    def var(self, name):
        if name not in self._vars:
            self._vars[name] = z3.BitVec(name, 32)
        return self._vars[name]

    def z3_input(self, name, step=None):
        return self.var(f"in_{name}" if step is None else f"in_{name}@{step}")

    def z3_content(self, ent_num, sig):
        # keyed by prototype and user tile, so that twins (two blueprints of equal programs) share it
        e = self.circ.ents[ent_num]
        tl = top_left_tile(e)
        return self.var(f"ct_{e.name}_{tl[0]}_{tl[1]}_{sig}")

    def content_constraints(self):
        return [v >= 0 for n, v in self._vars.items() if n.startswith("ct_")]

    # -------------------------------------------------------------- evaluators
    def make(self, dom, inp, cont, step_of=None, reads=None, init=None):
        """(Evaluator, Interp factory).  inp(name, step) and cont(ent_num, sig) give dom values."""
        circ = self.circ

        def const_override(e, sig, count, t):
            for name in self.input_ents.get(e, ()):
                info = self.input_info[name]
                if count == info["default"] and (info["type"] is None or info["type"] == sig):
                    step = None if (t is None or step_of is None) else step_of(t)
                    return inp(name, step)
            return None

        ev = Evaluator(circ, dom, const_override=const_override, contents=lambda e, s, t: cont(e, s), universe=self.U)
        if init is not None:
            ev.initial_state = init

        def ref(step=None, reads_=None):
            def contents(key, s):
                nums = self.tile_ents.get(key)
                if not nums:
                    return dom.const(0)
                return cont(nums[0], s)

            inputs = {name: inp(name, step) for name in self.input_info}
            return Interp(dom, inputs, universe=self.U, contents=contents, reads=reads_ if reads_ is not None else (reads or {})).run(self.stmts)

        return ev, ref

    def z3_pair(self, **kw):
        return self.make(self.zd, lambda n, st: self.z3_input(n, st), lambda e, s: self.z3_content(e, s), **kw)

    def int_pair(self, model, **kw):
        def oracle(kind, a, b):
            return model_int(model, self.zd.uf[kind](self.zd.const(a), self.zd.const(b)))

        dom = IntDom(uf_oracle=oracle)
        ev, ref = self.make(
            dom,
            lambda n, st: model_int(model, self.z3_input(n, st)),
            lambda e, s: model_int(model, self.z3_content(e, s)),
            **kw,
        )
        return dom, ev, ref

    # -------------------------------------------------------------- observation points
    def anchor_of(self, name):
        rx = _desc_re(name, r" \(output anchor\)")
        return [e for e in self.circ.ents.values() if e.kind == "const" and rx.match(e.desc)]

    def const_producer_of(self, name):
        rx = _desc_re(name, r" \(value=")
        return [e for e in self.circ.ents.values() if e.kind == "const" and rx.match(e.desc)]

    def producer_of(self, name):
        rx = _desc_re(name, r" \(")
        return [e for e in self.circ.ents.values() if rx.match(e.desc) and "(output anchor)" not in e.desc]

    def carrier_hint(self, ent):
        m = re.search(r"-> (\S+)\s*$", ent.desc)
        return m.group(1) if m else None

    def observe(self, ev, name, t):
        """{signal: value} at the observation point of a named output, and how it was found"""
        anchors = self.anchor_of(name)
        if len(anchors) == 1:
            return ev.read_all(anchors[0].num, t), ("anchor", anchors[0])
        if len(anchors) > 1:
            return None, ("multiple-anchors", anchors)
        consts = self.const_producer_of(name)
        if len(consts) >= 1:
            e = consts[0]
            d = ev.d
            vals = {}
            for s in ev.U:
                v = ev._const_out(e, s, t)
                vals[s] = v if v is not None else d.const(0)
            return vals, ("const", e)
        return None, ("missing", None)

    def entity_at(self, key):
        return [self.circ.ents[n] for n in self.tile_ents.get(key, [])]

    def inputs_from_model(self, model, steps=None):
        out = {}
        for name in self.input_info:
            if steps is None:
                out[name] = model_int(model, self.z3_input(name))
            else:
                out[name] = [model_int(model, self.z3_input(name, k)) for k in range(steps)]
        for n, v in self._vars.items():
            if n.startswith("ct_"):
                out[n] = model_int(model, v)
        return out


# ======================================================================================
#  Stateless check of one compiled program
# ======================================================================================


def decide(sess, run, key, neq, replay, extra=()):
    """Discharge `exists vars. neq`; replay any model concretely before believing it.
    Returns (verdict, model, replay_result) with verdict in
      'unsat'       - holds for every valuation (and every interpretation of the uninterpreted corners)
      'violation'   - a model that reproduces in the concrete replay
      'inconclusive'- timeout, or a difference that exists only at uninterpreted corners
      'harness'     - model did not reproduce (encoding bug): reported as harness error"""
    base = [neq] + list(extra) + sess.content_constraints()
    q = Solve(base)
    run.count(q.verdict, q.secs)
    if q.verdict == "unknown":
        run.inconc(key, "solver timeout/unknown")
        return "inconclusive", None, None
    if q.verdict == "unsat":
        return "unsat", None, None
    try:
        bad, corner = replay(q.model)
    except Exception as exc:  # noqa: BLE001
        run.harness_error(key, f"replay failed: {exc!r}")
        return "harness", None, None
    model = q.model
    if corner:
        q2 = Solve(base + corner_free(sess.zd))
        run.count(q2.verdict, q2.secs)
        if q2.verdict == "unsat":
            run.inconc(key, "differs only where the model is uninterpreted (INT_MIN/-1, shift count outside 0..31, exponent outside 0..8)")
            return "inconclusive", None, None
        if q2.verdict == "unknown":
            run.inconc(key, "solver timeout/unknown (corner-free re-query)")
            return "inconclusive", None, None
        try:
            bad, corner = replay(q2.model)
        except Exception as exc:  # noqa: BLE001
            run.harness_error(key, f"replay failed: {exc!r}")
            return "harness", None, None
        model = q2.model
    if not bad:
        run.harness_error(key, "solver model did not reproduce in the concrete replay")
        return "harness", None, None
    return "violation", model, bad


def settle_ticks(ev):
    return ev.depth_bound() + 3


def check_stateless(sess: Session, run, key_prefix, meta, outputs=None, check_entities=True, bundle_all_signals=True):
    """Decide, for every named output (and entity condition) of a stateless program:
         exists inputs. observed != reference        (UNSAT = holds for all int32 inputs)
    Returns list of finding dicts (already replayed)."""
    findings = []
    zev, zref = sess.z3_pair()
    try:
        ref = zref()
    except RefError as exc:
        run.inconc(key_prefix, f"reference undefined: {exc}")
        return findings
    names = outputs if outputs is not None else ref.output_names()
    t_mode = [None]

    def obs_at(ev, name, t):
        return sess.observe(ev, name, t)

    for prob in sess.problems:
        findings.append({"key": f"{key_prefix}:{prob[1]}", "what": f"{prob[0]} {prob[1]}: declared input has no labelled constant combinator", "kind": prob[0], "closed": True})

    def cyc_wrap(fn):
        """evaluate at steady state, or unrolled if the blueprint has a per-signal cycle"""
        try:
            return fn(None), None
        except Cyclic:
            T = settle_ticks(zev) + 2
            return fn(T), T

    vacuity_done = False
    for name in names:
        try:
            rv = ref.lookup(name)
        except RefError:
            continue
        if not isinstance(rv, (Sig, Bun)):
            continue
        try:
            (obs_how, T) = cyc_wrap(lambda t: obs_at(zev, name, t))
        except Unsupported as exc:
            run.inconc(f"{key_prefix}:{name}", f"unsupported: {exc}")
            continue
        obs, how = obs_how
        key = f"{key_prefix}:{name}"
        if obs is None:
            findings.append({"key": key, "what": f"output {name}: {how[0]} (no unique observation point)", "kind": how[0], "closed": True})
            continue
        diffs = []
        d = sess.zd
        if isinstance(rv, Sig):
            carrier = rv.type or sess.carrier_hint(how[1])
            if carrier is None or carrier not in obs:
                findings.append({"key": key, "what": f"output {name}: carrier signal {carrier!r} unknown", "kind": "carrier", "closed": True})
                continue
            diffs.append((carrier, obs[carrier], rv.val))
        else:
            for s in sess.U:
                diffs.append((s, obs[s], rv.m.get(s, d.const(0))))
        neq = z3.Or(*[o != r for (_s, o, r) in diffs])

        def replay(model, name=name, how=how, T=T):
            idom, iev, iref = sess.int_pair(model)
            iref_run = iref()
            irv = iref_run.lookup(name)
            ticks = [None] if T is None else [T, T + 1, T + 2, T + 3, 2 * T]
            bad = {}
            for t in ticks:
                try:
                    iobs, _ = sess.observe(iev, name, t)
                except Cyclic:
                    iobs, _ = sess.observe(iev, name, settle_ticks(iev) + 2)
                if isinstance(irv, Sig):
                    carrier = irv.type or sess.carrier_hint(how[1])
                    exp = {carrier: irv.val}
                else:
                    exp = {s: irv.m.get(s, 0) for s in sess.U}
                bad = {s: (exp[s], iobs[s]) for s in exp if exp[s] != iobs[s]}
                if bad:
                    break
            return bad, bool(idom.corner_hits)

        pre = list(getattr(ref, "preconditions", []))
        verdict, model, bad = decide(sess, run, key, neq, replay, extra=pre)
        if not vacuity_done and verdict == "unsat":
            # reachability twin: the same encoding must be able to differ from reference+1
            tw = Solve([z3.Or(*[o != r + 1 for (_s, o, r) in diffs])] + pre + sess.content_constraints(), 20_000)
            if tw.verdict == "unsat":
                run.harness_error(key, "vacuity twin UNSAT")
            vacuity_done = True
        if verdict != "violation":
            continue
        inputs = sess.inputs_from_model(model)
        s0 = sorted(bad)[0]
        findings.append(
            {
                "key": key,
                "what": f"output {name}: for inputs {inputs} signal {s0} is {bad[s0][1]} but the source denotes {bad[s0][0]}",
                "kind": "value",
                "inputs": inputs,
                "mismatch": {s: {"expected": a, "observed": b} for s, (a, b) in bad.items()},
                "cyclic_T": T,
            }
        )
    if getattr(ref, "loop_outputs", None):
        findings += check_loop_outputs(sess, run, key_prefix, zev, zref, set(names))
    if check_entities:
        findings += check_entity_conditions(sess, run, key_prefix, zev, ref)
    return findings


def check_loop_outputs(sess, run, key_prefix, zev, zref, top_names):
    """"A for loop equals its unrolling" for results declared in the body that nothing consumes: every iteration
    exposes its own result.  The blueprint must carry exactly one observation point labelled with the name per
    iteration, and there must be ONE assignment of observation points to iterations under which
        exists inputs. observed_j != reference_pi(j)      is UNSAT.
    Candidate assignments are those consistent at a concrete valuation that tells the iterations apart; every
    candidate is decided by the solver (and every model replayed)."""
    import itertools

    findings = []
    ref = zref()
    d = sess.zd
    for name, refs in ref.loop_outputs.items():
        key = f"{key_prefix}:{name}[per-iteration]"
        if name in top_names or len(refs) > 6 or not all(isinstance(r, Sig) for r in refs):
            continue
        pts = sess.anchor_of(name)
        how = "anchor"
        if not pts:
            pts = sess.const_producer_of(name)
            how = "const"
        if len(pts) != len(refs):
            findings.append({"key": key, "what": f"loop-body result {name}: {len(refs)} iterations declare it and nothing consumes it, but the blueprint has {len(pts)} observation points ({how}) labelled {name}", "kind": "loop-anchor-count", "closed": True})
            continue

        def observe(ev, pt, t, how=how):
            if how == "anchor":
                return ev.read_all(pt.num, t)
            vals = {}
            for s_ in ev.U:
                v = ev._const_out(pt, s_, t)
                vals[s_] = v if v is not None else ev.d.const(0)
            return vals

        try:
            try:
                T = None
                obs = [observe(zev, p_, None) for p_ in pts]
            except Cyclic:
                T = settle_ticks(zev) + 2
                obs = [observe(zev, p_, T) for p_ in pts]
        except Unsupported as exc:
            run.inconc(key, f"unsupported: {exc}")
            continue
        carriers = []
        ok = True
        for j, p_ in enumerate(pts):
            cands = {r.type for r in refs if r.type}
            hint = sess.carrier_hint(p_) if how == "anchor" else None
            carriers.append((cands, hint))
        pre = list(getattr(ref, "preconditions", []))

        def carrier_for(i, j):
            c = refs[i].type or carriers[j][1]
            return c if c in obs[j] else None

        # a valuation that tells the iterations apart (falls back to any valuation)
        q = Solve([z3.Distinct(*[r.val for r in refs])] + pre + sess.content_constraints(), 20_000) if len(refs) > 1 else Solve(pre + sess.content_constraints(), 20_000)
        run.count(q.verdict, q.secs)
        if q.verdict != "sat":
            q = Solve(pre + sess.content_constraints(), 20_000)
            run.count(q.verdict, q.secs)
        if q.verdict != "sat":
            run.inconc(key, "no valuation found for matching iterations to observation points")
            continue
        idom, iev, iref = sess.int_pair(q.model)
        irefs = iref().loop_outputs.get(name, [])
        tt = T

        def iobs_of(iev_, tt_=tt):
            out = []
            for p_ in pts:
                try:
                    out.append(observe(iev_, p_, tt_))
                except Cyclic:
                    out.append(observe(iev_, p_, settle_ticks(iev_) + 2))
            return out

        iobs = iobs_of(iev)
        n = len(refs)
        compat = [[False] * n for _ in range(n)]
        for i in range(n):
            for j in range(n):
                c = carrier_for(i, j)
                compat[i][j] = c is not None and iobs[j].get(c) == irefs[i].val
        perms = [pi for pi in itertools.permutations(range(n)) if all(compat[pi[j]][j] for j in range(n))]
        if not perms:
            if idom.corner_hits:
                run.inconc(key, "matching valuation touches an uninterpreted corner")
                continue
            inputs = sess.inputs_from_model(q.model)
            seen = [{c: v for c, v in ob.items() if v} for ob in iobs]
            findings.append({"key": key, "what": f"loop-body result {name}: for inputs {inputs} the {n} observation points show {seen} but the iterations denote {[(r.type, r.val) for r in irefs]}: no one-to-one assignment", "kind": "loop-value", "inputs": inputs})
            continue
        verdicts = []
        held = False
        first_bad = None
        for pi in perms[:24]:
            diffs = [(carrier_for(pi[j], j), obs[j][carrier_for(pi[j], j)], refs[pi[j]].val) for j in range(n)]
            neq = z3.Or(*[o != r for (_c, o, r) in diffs])

            def replay(model, pi=pi):
                idom2, iev2, iref2 = sess.int_pair(model)
                ir2 = iref2().loop_outputs.get(name, [])
                io2 = iobs_of(iev2)
                bad = {}
                for j in range(n):
                    c = carrier_for(pi[j], j)
                    if io2[j].get(c) != ir2[pi[j]].val:
                        bad[f"{c}@{j}"] = (ir2[pi[j]].val, io2[j].get(c))
                return bad, bool(idom2.corner_hits)

            verdict, model, bad = decide(sess, run, key, neq, replay, extra=pre)
            verdicts.append(verdict)
            if verdict == "unsat":
                held = True
                break
            if verdict == "violation" and first_bad is None:
                first_bad = (pi, model, bad)
        if held:
            continue
        if first_bad is not None and all(v == "violation" for v in verdicts):
            pi, model, bad = first_bad
            inputs = sess.inputs_from_model(model)
            k0 = sorted(bad)[0]
            findings.append({"key": key, "what": f"loop-body result {name}: under every assignment of the {n} observation points to iterations some value differs; e.g. for inputs {inputs} point {k0} shows {bad[k0][1]} but its iteration denotes {bad[k0][0]}", "kind": "loop-value", "inputs": inputs})
    return findings


def check_entity_conditions(sess, run, key_prefix, zev, ref):
    """C06 style: every `entity.enable = expr` -> circuit condition true exactly when expr > 0"""
    findings = []
    seen = {}
    for (ekey, cond, how) in ref.enables:
        seen[ekey] = (cond, how)  # last assignment wins
    for ekey, (cond, how) in seen.items():
        key = f"{key_prefix}:enable@{ekey[0]}@{ekey[1]},{ekey[2]}"
        ents = sess.entity_at(ekey)
        if len(ents) != 1:
            findings.append({"key": key, "what": f"entity {ekey}: {len(ents)} entities at the user tile", "kind": "entity-missing", "closed": True})
            continue
        ent = ents[0]
        try:
            try:
                enabled, cc = zev.circuit_condition(ent, None)
                T = None
            except Cyclic:
                T = settle_ticks(zev) + 2
                enabled, cc = zev.circuit_condition(ent, T)
        except Unsupported as exc:
            run.inconc(key, f"unsupported: {exc}")
            continue
        if how == "const":
            # constant enable: the documentation only says it is translated to a condition; the claim is
            # limited to: a constant-true enable must not leave the entity disabled by a false condition
            continue
        if not enabled or cc is None:
            findings.append({"key": key, "what": f"entity {ekey}: enable assigned but no circuit condition is emitted (circuit_enabled={enabled})", "kind": "no-condition", "closed": True})
            continue
        def replay(model, ekey=ekey, ent=ent):
            idom, iev, iref = sess.int_pair(model)
            r2 = iref()
            exp = dict((k, c) for (k, c, _h) in r2.enables)[ekey]
            try:
                _en, got = iev.circuit_condition(ent, None)
            except Cyclic:
                _en, got = iev.circuit_condition(ent, settle_ticks(iev) + 2)
            bad = {} if bool(exp) == bool(got) else {"enable": (bool(exp), bool(got))}
            return bad, bool(idom.corner_hits)

        verdict, model, bad = decide(sess, run, key, cc != cond, replay)
        if verdict != "violation":
            continue
        exp, got = bad["enable"]
        inputs = sess.inputs_from_model(model)
        findings.append({"key": key, "what": f"entity {ekey}: for inputs {inputs} the circuit condition is {bool(got)} but the assigned expression is {'positive' if exp else 'not positive'}", "kind": "enable", "inputs": inputs})
    return findings


# ======================================================================================
#  Histories: gated memory cells (C03) and set/reset latches (C05) - bounded model checking
# ======================================================================================


def _truthy_pos(d, v):
    return d.cmp(">", v, d.const(0))


def history_reference(sess, dom, ref_factory, K):
    """step-level reference.  Returns per step k: (Interp run with reads of step k)"""
    prev = {}
    runs = []
    domain_constraints = []  # the statement defines behaviour for c > 0 and c == 0 only
    for k in range(K):
        # pass 1: evaluate writes with the previous reads (data/enable are stateless in the families)
        reads0 = {kk: vv for kk, vv in prev.items() if not isinstance(kk, tuple)}
        reads0["__default0__"] = True
        probe = ref_factory(k, reads0)
        cur = dict(prev)
        mems = probe.mems
        for key in mems:
            cur.setdefault(key, dom.const(0))
            prev.setdefault(key, dom.const(0))
        for (key, v, w) in probe.writes:
            vv = probe.as_val(v)
            if mems.get(key) is None and isinstance(v, Sig):
                mems[key] = v.type
            if w is None:
                cur[key] = vv
            else:
                domain_constraints.append(dom.cmp(">=", probe.as_val(w), dom.const(0)))
                cur[key] = dom.ite(_truthy_pos(dom, probe.as_val(w)), vv, prev[key])
        for (key, v, st, rs, order) in probe.latches:
            s_on = dom.cmp("!=", probe.as_val(st), dom.const(0))
            r_on = dom.cmp("!=", probe.as_val(rs), dom.const(0))
            was_on = dom.cmp("!=", prev.get(("on", key), dom.const(0)), dom.const(0))
            if order == "sr":
                on = dom.or_(s_on, dom.and_(was_on, dom.not_(r_on)))
            else:
                on = dom.and_(dom.not_(r_on), dom.or_(s_on, was_on))
            cur[("on", key)] = dom.b2i(on)
            cur[key] = dom.ite(on, probe.as_val(v), dom.const(0))
            if mems.get(key) is None and isinstance(v, Sig):
                mems[key] = v.type
        final = ref_factory(k, {kk: vv for kk, vv in cur.items() if not isinstance(kk, tuple)})
        final.on_state = {kk[1]: vv for kk, vv in cur.items() if isinstance(kk, tuple)}
        for key, T in mems.items():
            if final.mems.get(key) is None:
                final.mems[key] = T
        runs.append(final)
        prev = cur
    if runs:
        runs[0].domain_constraints = domain_constraints
    return runs


def check_history(sess: Session, run, key_prefix, K, bool_inputs=(), outputs=None, extra_hold=0):
    """exists history of K steps (one input changed per step, each held S ticks):
         some named output differs from the step-level reference at the end of a step."""
    findings = []
    zd = sess.zd
    probe_ev, _ = sess.z3_pair()
    S = probe_ev.depth_bound() + 4 + extra_hold

    def step_of(t):
        return min(max(0, t - 1) // S, K - 1)

    zev, zref = sess.z3_pair(step_of=step_of)
    try:
        refs = history_reference(sess, zd, lambda k, reads: zref(k, reads), K)
    except RefError as exc:
        run.inconc(key_prefix, f"reference undefined: {exc}")
        return findings, S
    names = outputs if outputs is not None else refs[-1].output_names()
    hist_constraints = list(refs[0].domain_constraints)
    in_names = list(sess.input_info)
    for k in range(1, K):
        changed = [sess.z3_input(n, k) != sess.z3_input(n, k - 1) for n in in_names]
        if len(changed) > 1:
            hist_constraints.append(z3.AtMost(*changed, 1))
    for n in bool_inputs:
        for k in range(K):
            v = sess.z3_input(n, k)
            hist_constraints.append(z3.Or(v == 0, v == 1))
    for prob in sess.problems:
        findings.append({"key": f"{key_prefix}:{prob[1]}", "what": f"{prob[0]} {prob[1]}: declared input has no constant combinator", "kind": prob[0], "closed": True})
    vac = False
    for name in names:
        key = f"{key_prefix}:{name}"
        rv_last = None
        try:
            rv_last = refs[-1].lookup(name)
        except RefError:
            continue
        if isinstance(rv_last, tuple) and rv_last[0] == "mem":
            continue
        if not isinstance(rv_last, (Sig, Bun)):
            continue
        diffs = []  # (step, tick, signal, observed, expected)
        how = None
        try:
            for k in range(K):
                rv = refs[k].lookup(name)
                for t in ((k + 1) * S - 1, (k + 1) * S):
                    obs, how = sess.observe(zev, name, t)
                    if obs is None:
                        break
                    if isinstance(rv, Sig):
                        carrier = rv.type or sess.carrier_hint(how[1])
                        if carrier is None:
                            obs = None
                            how = ("carrier", None)
                            break
                        diffs.append((k, t, carrier, obs[carrier], rv.val))
                    else:
                        for s in sess.U:
                            diffs.append((k, t, s, obs[s], rv.m.get(s, zd.const(0))))
                if obs is None:
                    break
        except Unsupported as exc:
            run.inconc(key, f"unsupported: {exc}")
            continue
        if obs is None:
            findings.append({"key": key, "what": f"output {name}: {how[0]} (no unique observation point)", "kind": how[0], "closed": True})
            continue
        neq = z3.Or(*[o != r for (_k, _t, _s, o, r) in diffs])

        def replay(model, name=name):
            idom, iev, iref = sess.int_pair(model, step_of=step_of)
            irefs = history_reference(sess, idom, lambda k, reads: iref(k, reads), K)
            bad = {}
            for k in range(K):
                irv = irefs[k].lookup(name)
                for t in ((k + 1) * S - 1, (k + 1) * S):
                    iobs, ihow = sess.observe(iev, name, t)
                    if isinstance(irv, Sig):
                        carrier = irv.type or sess.carrier_hint(ihow[1])
                        exp = {carrier: irv.val}
                    else:
                        exp = {s: irv.m.get(s, 0) for s in sess.U}
                    for s in exp:
                        if exp[s] != iobs[s]:
                            bad[(k, t, s)] = (exp[s], iobs[s])
                if bad:
                    break
            return bad, bool(idom.corner_hits)

        verdict, model, bad = decide(sess, run, key, neq, replay, extra=hist_constraints)
        if verdict == "unsat" and not vac:
            tw = Solve([z3.Or(*[o != r + 1 for (_k, _t, _s, o, r) in diffs])] + hist_constraints, 20_000)
            if tw.verdict == "unsat":
                run.harness_error(key, "vacuity twin UNSAT")
            vac = True
        if verdict != "violation":
            continue
        hist = sess.inputs_from_model(model, steps=K)
        (k0, t0, s0) = sorted(bad)[0]
        findings.append(
            {
                "key": key,
                "what": f"output {name}: input history {hist} (each step held {S} ticks): at step {k0} (tick {t0}) signal {s0} reads {bad[(k0, t0, s0)][1]} but the source denotes {bad[(k0, t0, s0)][0]}",
                "kind": "history",
                "history": hist,
                "hold_ticks": S,
                "steps": K,
            }
        )
    return findings, S


# ======================================================================================
#  C04: unconditional self-referential writes  m.write(f(m.read()))
# ======================================================================================


def check_loop(sess: Session, run, key_prefix, cell="m", alias="r0", readers=(), Lmax=None, rounds=3, warmup=0):
    """exists L in 1..Lmax: for all held inputs and all ticks t <= T-L from the all-zero state:
         x(t+L) = f(x(t))        x = the cell's signal at the anchor of `Signal r0 = m.read()`
       and for every depth-1 reader r = g(m.read()):  r(t+1) = g(x(t))."""
    findings = []
    zd = sess.zd
    zev, zref = sess.z3_pair()
    ncomb = sum(1 for e in sess.circ.ents.values() if e.is_comb)
    Lmax = Lmax or min(ncomb + 1, 8)
    xsym = z3.BitVec("cell_value", 32)
    try:
        r0 = zref(None, {cell: xsym})
    except RefError as exc:
        run.inconc(key_prefix, f"reference undefined: {exc}")
        return findings
    wr = [w for w in r0.writes if w[0] == cell]
    if len(wr) != 1 or wr[0][2] is not None:
        run.inconc(key_prefix, "not a single unconditional write")
        return findings
    fterm = r0.as_val(wr[0][1])
    ctype = r0.mems.get(cell) or (wr[0][1].type if isinstance(wr[0][1], Sig) else None)
    key = f"{key_prefix}:{alias}"
    obs0, how = sess.observe(zev, alias, 1)
    if obs0 is None:
        findings.append({"key": key, "what": f"cell alias {alias}: {how[0]} (no unique observation point)", "kind": how[0], "closed": True})
        return findings
    carrier = ctype or sess.carrier_hint(how[1])

    def x_at(ev, t):
        return sess.observe(ev, alias, t)[0][carrier]

    def f_of(val, dom, ref_factory):
        r = ref_factory(None, {cell: val})
        w = [w for w in r.writes if w[0] == cell][0]
        return r.as_val(w[1]), r

    cexs = {}
    proved_L = None
    for L in range(1, Lmax + 1):
        T = rounds * L + 4 + warmup
        diffs = []
        # warmup > 0: the recurrence is required only once inputs DERIVED by other combinators have reached the
        # ring (programs whose f uses a computed value); 0 = from the very first tick, as the statement says
        for t in range(warmup, T - L + 1):
            xt = x_at(zev, t)
            diffs.append(x_at(zev, t + L) != z3.substitute(fterm, (xsym, xt)))
        neq = z3.Or(*diffs)

        def replay(model, L=L, T=T):
            idom, iev, iref = sess.int_pair(model)
            bad = {}
            for t in range(warmup, T - L + 1):
                xt = x_at(iev, t)
                exp, _r = f_of(xt, idom, iref)
                got = x_at(iev, t + L)
                if exp != got:
                    bad[t] = (exp, got)
                    break
            return bad, bool(idom.corner_hits)

        verdict, model, bad = decide(sess, run, f"{key}@L={L}", neq, replay)
        if verdict == "unsat":
            proved_L = L
            break
        if verdict == "violation":
            t0 = sorted(bad)[0]
            cexs[L] = {"inputs": sess.inputs_from_model(model), "tick": t0, "expected": bad[t0][0], "observed": bad[t0][1]}
        else:
            cexs[L] = {"inconclusive": True}
    if proved_L is None:
        if any(c.get("inconclusive") for c in cexs.values()):
            run.inconc(key, "no latency L proved and some L undecided")
        else:
            findings.append(
                {
                    "key": key,
                    "what": f"cell {cell}: no round-trip latency L in 1..{Lmax} satisfies value(t+L)=f(value(t)); e.g. L=1: {cexs.get(1)}",
                    "kind": "loop",
                    "counterexample_per_L": cexs,
                }
            )
        return findings
    # readers of depth 1
    for rname in readers:
        rkey = f"{key_prefix}:{rname}"
        try:
            rv = r0.lookup(rname)
        except RefError:
            continue
        if not isinstance(rv, Sig):
            continue
        T = rounds * proved_L + 4
        obs_r, rhow = sess.observe(zev, rname, 1)
        if obs_r is None:
            findings.append({"key": rkey, "what": f"reader {rname}: {rhow[0]}", "kind": rhow[0], "closed": True})
            continue
        rc = rv.type or sess.carrier_hint(rhow[1])
        ok = False
        for dly in (1, 2, 0):
            diffs = []
            for t in range(0, T):
                xt = x_at(zev, t)
                diffs.append(sess.observe(zev, rname, t + dly)[0][rc] != z3.substitute(rv.val, (xsym, xt)))

            def replay(model, dly=dly, rname=rname, rc=rc):
                idom, iev, iref = sess.int_pair(model)
                bad = {}
                for t in range(0, T):
                    xt = x_at(iev, t)
                    exp = iref(None, {cell: xt}).lookup(rname).val
                    got = sess.observe(iev, rname, t + dly)[0][rc]
                    if exp != got:
                        bad[t] = (exp, got)
                        break
                return bad, bool(idom.corner_hits)

            verdict, model, bad = decide(sess, run, f"{rkey}@d={dly}", z3.Or(*diffs), replay)
            if verdict == "unsat":
                ok = True
                break
            if verdict != "violation":
                ok = None
                break
            last = (model, bad)
        if ok is False:
            model, bad = last
            t0 = sorted(bad)[0]
            findings.append({"key": rkey, "what": f"reader {rname} of cell {cell} does not follow the cell's value with a fixed delay (inputs {sess.inputs_from_model(model)}, tick {t0}: {bad[t0][1]} instead of {bad[t0][0]})", "kind": "loop-reader", "inputs": sess.inputs_from_model(model)})
    return findings


# ======================================================================================
#  C20: closed (variable-free) naming clauses, evaluated per program
# ======================================================================================


def stmt_lines(stmts, mode="full"):
    """top-level name -> 1-based source line of its declaration in program_src(stmts, mode)"""
    from .gen import stmt_src

    line = 1
    out = {}
    for s in stmts:
        txt = stmt_src(s, mode)
        if s[0] in ("input", "sig", "bun", "int", "mem", "place"):
            out[s[1]] = line
        line += txt.count("\n") + 1
    return out


def check_naming(sess: Session, run, key_prefix, mode="full"):
    findings = []
    _zev, zref = sess.z3_pair()
    try:
        ref = zref()
    except RefError as exc:
        run.inconc(key_prefix, f"reference undefined: {exc}")
        return findings
    lines = stmt_lines(sess.stmts, mode)
    outs = set(ref.output_names())
    tops = [n for n in ref.toplevel_names if isinstance(ref.env[0].get(n), (Sig, Bun))]
    for name in tops:
        key = f"{key_prefix}:label:{name}"
        anchors = sess.anchor_of(name)
        if name not in outs:
            if anchors:
                findings.append({"key": key, "what": f"name {name} is consumed by another statement but has an output anchor", "kind": "anchor-for-consumed", "closed": True})
            continue
        consts = sess.const_producer_of(name)
        producers = sess.producer_of(name)
        if len(anchors) > 1:
            findings.append({"key": key, "what": f"output {name}: {len(anchors)} anchors", "kind": "multiple-anchors", "closed": True})
            continue
        if not anchors and not consts:
            findings.append({"key": key, "what": f"output {name}: neither an anchor nor a labelled constant combinator exists", "kind": "missing", "closed": True})
            continue
        decl = next((st for st in sess.stmts if st[0] in ("sig", "bun") and st[1] == name), None)
        # aliases and function results are produced by a combinator that carries the ORIGINAL name
        is_alias = decl is not None and decl[2][0] in ("v", "call")
        if anchors and not is_alias:
            # the single combinator feeding the anchor's network is "the combinator producing it"
            a = anchors[0]
            feeding = set()
            for conn in (1, 2):
                net = sess.circ.net_of(a.num, conn)
                if net is not None:
                    feeding |= {e for (e, how) in sess.circ.producers(net) if how == "out"}
            if len(feeding) == 1:
                p = sess.circ.ents[next(iter(feeding))]
                if not _desc_re(name, r" \(").match(p.desc):
                    findings.append({"key": key, "what": f"output {name}: the combinator producing it is described {p.desc!r}, not with the variable's name", "kind": "producer-unlabelled", "closed": True})
        want = f":{lines.get(name)}]"
        if producers and lines.get(name) and not any(want in p.desc for p in producers):
            findings.append({"key": key, "what": f"output {name}: producer description lacks source line {lines.get(name)} ({[p.desc for p in producers][:2]})", "kind": "line", "closed": True})
        if anchors:
            a = anchors[0]
            # the anchor must be an EMPTY constant combinator wired to something
            if sess.circ.const_filters(a):
                findings.append({"key": key, "what": f"output {name}: anchor is not empty", "kind": "anchor-not-empty", "closed": True})
            if sess.circ.net_of(a.num, 1) is None and sess.circ.net_of(a.num, 2) is None:
                findings.append({"key": key, "what": f"output {name}: anchor is not wired", "kind": "anchor-unwired", "closed": True})
    for (name, descs) in sess.label_mismatch:
        findings.append({"key": f"{key_prefix}:label:{name}", "what": f"input {name}: its constant combinator is not labelled with its name and value (found {descs[:2]})", "kind": "input-label", "closed": True})
    for name, info in sess.input_info.items():
        rx = _desc_re(name, r" \(value=" + re.escape(str(info["default"])) + r"\b")
        ents = [sess.circ.ents[n] for n in info["ents"]]
        if ents and any(_desc_re(name, r" \(value=").match(e.desc) for e in ents) and not any(rx.match(e.desc) for e in ents):
            findings.append({"key": f"{key_prefix}:label:{name}", "what": f"input {name}: label does not show its value {info['default']}", "kind": "input-value-label", "closed": True})
    return findings


# ======================================================================================
#  Twins: observational equivalence of two blueprints produced by the real compiler
# ======================================================================================


def _obs_diffs(sessA, evA, refA, sessB, evB, refB, name, tA, tB, dom):
    """list of (label, valueA, valueB) to be compared for one named output, or (None, reason)"""
    try:
        rvA, rvB = refA.lookup(name), refB.lookup(name)
    except RefError as exc:
        return None, f"name not defined in both: {exc}"
    oa, ha = sessA.observe(evA, name, tA)
    ob, hb = sessB.observe(evB, name, tB)
    if oa is None or ob is None:
        return None, f"observation point: A {ha[0]}, B {hb[0]}"
    if isinstance(rvA, Sig) and isinstance(rvB, Sig):
        ca = rvA.type or sessA.carrier_hint(ha[1])
        cb = rvB.type or sessB.carrier_hint(hb[1])
        if ca is None or cb is None or ca not in oa or cb not in ob:
            return None, f"carrier unknown (A {ca}, B {cb})"
        return [(f"{ca}|{cb}", oa[ca], ob[cb])], None
    if isinstance(rvA, Bun) and isinstance(rvB, Bun):
        sigs = list(dict.fromkeys(list(sessA.U) + list(sessB.U)))
        z = dom.const(0)
        return [(s, oa.get(s, z), ob.get(s, z)) for s in sigs], None
    return None, "kind differs"


def check_equiv(sessA: Session, sessB: Session, run, key_prefix, names=None, entities=True, K=None, bool_inputs=()):
    """exists inputs (or a K-step history): some common named output / entity condition differs between A and B"""
    findings = []
    if K is None:
        evA, refA_f = sessA.z3_pair()
        evB, refB_f = sessB.z3_pair()
        ticks = [(None, None)]
        extra = []
        step_of = None
    else:
        S = max(sessA.z3_pair()[0].depth_bound(), sessB.z3_pair()[0].depth_bound()) + 4

        def step_of(t):
            return min(max(0, t - 1) // S, K - 1)

        evA, refA_f = sessA.z3_pair(step_of=step_of)
        evB, refB_f = sessB.z3_pair(step_of=step_of)
        ticks = [((k + 1) * S, (k + 1) * S) for k in range(K)]
        extra = []
        ins = sorted(set(sessA.input_info) | set(sessB.input_info))
        for k in range(1, K):
            ch = [sessA.z3_input(n, k) != sessA.z3_input(n, k - 1) for n in ins]
            if len(ch) > 1:
                extra.append(z3.AtMost(*ch, 1))
        for n in bool_inputs:
            for k in range(K):
                v = sessA.z3_input(n, k)
                extra.append(z3.Or(v == 0, v == 1))
    zero_reads = {"__default0__": True}
    try:
        refA = refA_f(None if K is None else 0, zero_reads)
        refB = refB_f(None if K is None else 0, zero_reads)
    except RefError as exc:
        run.inconc(key_prefix, f"reference undefined: {exc}")
        return findings
    common = [n for n in refA.output_names() if n in set(refB.output_names())]
    if names is not None:
        common = [n for n in names]
    extra += [c for c in sessB.content_constraints()]

    def settle(ev, t):
        return t

    for name in common:
        key = f"{key_prefix}:{name}"
        rv = None
        try:
            rv = refA.lookup(name)
        except RefError:
            pass
        if isinstance(rv, tuple) or rv is None or isinstance(rv, (int,)):
            continue
        diffs = []
        reason = None
        try:
            for (tA, tB) in ticks:
                try:
                    d, reason = _obs_diffs(sessA, evA, refA, sessB, evB, refB, name, tA, tB, sessA.zd)
                except Cyclic:
                    T = max(settle_ticks(evA), settle_ticks(evB)) + 2
                    d, reason = _obs_diffs(sessA, evA, refA, sessB, evB, refB, name, T, T, sessA.zd)
                if d is None:
                    break
                diffs += d
        except Unsupported as exc:
            run.inconc(key, f"unsupported: {exc}")
            continue
        if reason is not None:
            findings.append({"key": key, "what": f"output {name}: twins cannot be compared: {reason}", "kind": "twin-observation", "closed": True})
            continue
        neq = z3.Or(*[a != b for (_l, a, b) in diffs])

        def replay(model, name=name):
            ida, ieA, irA_f = sessA.int_pair(model, step_of=step_of)
            idb, ieB, irB_f = sessB.int_pair(model, step_of=step_of)
            irA = irA_f(None if K is None else 0, zero_reads)
            irB = irB_f(None if K is None else 0, zero_reads)
            bad = {}
            for (tA, tB) in ticks:
                try:
                    d, _r = _obs_diffs(sessA, ieA, irA, sessB, ieB, irB, name, tA, tB, ida)
                except Cyclic:
                    T = max(settle_ticks(ieA), settle_ticks(ieB)) + 2
                    d, _r = _obs_diffs(sessA, ieA, irA, sessB, ieB, irB, name, T, T, ida)
                for (lab, a, b) in d or []:
                    if a != b:
                        bad[(tA, lab)] = (a, b)
                if bad:
                    break
            return bad, bool(ida.corner_hits or idb.corner_hits)

        verdict, model, bad = decide(sessA, run, key, neq, replay, extra=extra)
        if verdict != "violation":
            continue
        inputs = sessA.inputs_from_model(model, steps=K)
        inputs.update({k: v for k, v in sessB.inputs_from_model(model, steps=K).items() if k not in inputs})
        k0 = sorted(bad, key=str)[0]
        findings.append({"key": key, "what": f"output {name}: for inputs {inputs} the twins differ on {k0[1]}: {bad[k0][0]} vs {bad[k0][1]}" + (f" at tick {k0[0]}" if K else ""), "kind": "twin-value", "inputs": inputs})
    if entities and K is None:
        ea = {k: c for (k, c, _h) in refA.enables}
        for ekey in ea:
            key = f"{key_prefix}:enable@{ekey[0]}@{ekey[1]},{ekey[2]}"
            A_, B_ = sessA.entity_at(ekey), sessB.entity_at(ekey)
            if len(A_) != 1 or len(B_) != 1:
                if ekey in {k for (k, _c, _h) in refB.enables}:
                    findings.append({"key": key, "what": f"entity {ekey}: present {len(A_)} / {len(B_)} times in the twins", "kind": "twin-entity", "closed": True})
                continue
            try:
                ena, ca = evA.circuit_condition(A_[0], None)
                enb, cb = evB.circuit_condition(B_[0], None)
            except (Cyclic, Unsupported) as exc:
                run.inconc(key, f"{type(exc).__name__}")
                continue
            if (ca is None) != (cb is None) or bool(ena) != bool(enb):
                findings.append({"key": key, "what": f"entity {ekey}: circuit condition present/enabled differs between the twins", "kind": "twin-entity", "closed": True})
                continue
            if ca is None:
                continue

            def replay(model, ekey=ekey):
                ida, ieA, _ = sessA.int_pair(model)
                idb, ieB, _ = sessB.int_pair(model)
                _e, a = ieA.circuit_condition(sessA.entity_at(ekey)[0], None)
                _e, b = ieB.circuit_condition(sessB.entity_at(ekey)[0], None)
                return ({} if bool(a) == bool(b) else {"enable": (bool(a), bool(b))}), bool(ida.corner_hits or idb.corner_hits)

            verdict, model, bad = decide(sessA, run, key, ca != cb, replay, extra=extra)
            if verdict == "violation":
                inputs = sessA.inputs_from_model(model)
                findings.append({"key": key, "what": f"entity {ekey}: for inputs {inputs} the condition is {bad['enable'][0]} in one twin and {bad['enable'][1]} in the other", "kind": "twin-enable", "inputs": inputs})
    return findings


# ======================================================================================
#  Closed clauses: user-placed entities (C09/C15/C16) and compiler-chosen signals (C13)
# ======================================================================================


def check_places(sess: Session, run, key_prefix):
    """multiset of (prototype, top-left tile) of non-combinator, non-pole entities == what the generator's
    own interpreter predicts (it unrolls loops and expands calls itself)"""
    import collections

    findings = []
    _zev, zref = sess.z3_pair()
    try:
        ref = zref(None, {"__default0__": True})
    except RefError as exc:
        run.inconc(key_prefix, f"reference undefined: {exc}")
        return findings
    want = collections.Counter((p, x, y) for (p, x, y, _props) in ref.places)
    got = collections.Counter()
    for e in sess.circ.ents.values():
        if e.kind in ("other", "content"):
            got[(e.name,) + top_left_tile(e)] += 1
        elif e.kind == "pole" and (e.name,) + top_left_tile(e) in want:
            got[(e.name,) + top_left_tile(e)] += 1
    if want != got:
        missing = list((want - got).elements())[:5]
        extra = list((got - want).elements())[:5]
        findings.append({"key": f"{key_prefix}:places", "what": f"user-placed entities differ from the program: missing {missing}, unexpected {extra}", "kind": "places", "closed": True})
    return findings


def check_fresh(sess: Session, run, key_prefix):
    """C13 closed clause: the signal chosen for every untyped declared value is no wildcard, not signal-W and
    not a signal the program writes explicitly; explicitly typed inputs appear under exactly their name"""
    from .bp import WILDCARDS

    findings = []
    explicit = set(sess._program_signals())
    for name, info in sess.input_info.items():
        for n in info["ents"]:
            e = sess.circ.ents[n]
            for (_a, _b, sig, cnt) in sess.circ.const_filters(e):
                if cnt != info["default"]:
                    continue
                if info["type"] is None:
                    bad = None
                    if sig in WILDCARDS:
                        bad = "a wildcard"
                    elif sig == "signal-W":
                        bad = "the reserved write-enable signal"
                    elif sig in explicit:
                        bad = "a signal the program uses explicitly"
                    if bad:
                        findings.append({"key": f"{key_prefix}:fresh:{name}", "what": f"untyped value {name} was given {sig}, {bad}", "kind": "fresh", "closed": True})
                elif sig != info["type"]:
                    findings.append({"key": f"{key_prefix}:fresh:{name}", "what": f"typed value {name} appears as {sig} instead of {info['type']}", "kind": "typed-name", "closed": True})
    return findings


def check_props(sess: Session, run, key_prefix):
    """C09: static properties given in place(..., {props}) are applied to the entity at the user tile"""
    findings = []
    _zev, zref = sess.z3_pair()
    try:
        ref = zref(None, {"__default0__": True})
    except RefError:
        return findings
    for (proto, x, y, props) in ref.places:
        if not props:
            continue
        ents = sess.entity_at((proto, x, y))
        if len(ents) != 1:
            continue  # reported by check_places
        raw = ents[0].raw
        flat = dict(raw)
        flat.update(raw.get("control_behavior") or {})
        for k, v in props.items():
            want = v.strip('"') if isinstance(v, str) else v
            if k not in flat and k == "direction" and str(want) == "0":
                continue  # the default direction is elided from the blueprint
            if k not in flat:
                findings.append({"key": f"{key_prefix}:prop:{proto}@{x},{y}:{k}", "what": f"{proto} at ({x},{y}): static property {k}={want!r} is missing from the emitted entity", "kind": "prop-missing", "closed": True})
                continue
            got = flat[k]
            ok = (bool(got) == bool(int(want))) if isinstance(got, bool) and str(want).lstrip("-").isdigit() else (str(got) == str(want))
            if not ok:
                findings.append({"key": f"{key_prefix}:prop:{proto}@{x},{y}:{k}", "what": f"{proto} at ({x},{y}): static property {k} is {got!r}, program says {want!r}", "kind": "prop-value", "closed": True})
    return findings
