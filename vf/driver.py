"""Compile driver: runs the REAL compiler (dsl_compiler.cli.compile_dsl_source from /repo's working
tree) in worker processes, with run-time wrappers around OR-tools' CpSolver.solve.

Wrappers (no source hooks):
  * deterministic placements: num_workers=1, fixed random_seed, a deterministic-time cap instead of
    the wall-clock limit -> same placement on every run and under load;
  * optional capture of every CpModel proto handed to the solver (engine E3);
  * optional outcome stubs: 'unknown:k' (first k solves answer UNKNOWN -> later strategies /
    fallback grid), 'pin' (position variables pinned to a z3-chosen assignment).
"""
from __future__ import annotations

import hashlib
import io
import json
import logging
import os
import sys
import time
import traceback
from concurrent.futures import ProcessPoolExecutor, as_completed

DET_TIME = float(os.environ.get("VERIF_DET_TIME", "0.15"))

_state = {"installed": False, "capture": None, "stub": None, "solve_count": 0, "seed": 0}


def _install_wrappers():
    if _state["installed"]:
        return
    from ortools.sat.python import cp_model

    orig = cp_model.CpSolver.solve

    def solve(self, model, solution_callback=None):
        _state["solve_count"] += 1
        n = _state["solve_count"]
        self.parameters.num_workers = 1
        self.parameters.random_seed = _state["seed"]
        self.parameters.max_deterministic_time = DET_TIME
        self.parameters.max_time_in_seconds = 600.0
        cap = _state["capture"]
        if cap is not None:
            cap.append(model.Proto().SerializeToString() if hasattr(model.Proto(), "SerializeToString") else bytes(model.Proto()))
        stub = _state["stub"]
        if stub:
            if stub.get("unknown_first", 0) >= n:
                # a legal CP-SAT outcome: no solution found within the time limit
                self.parameters.max_deterministic_time = 0.0
                self.parameters.max_time_in_seconds = 1e-9
                self.parameters.stop_after_presolve = True if hasattr(self.parameters, "stop_after_presolve") else False
            pin = stub.get("pin")
            if pin and stub.get("pin_solve", n) == n:
                proto = model.Proto()
                byname = {}
                for i, v in enumerate(proto.variables):
                    if v.name:
                        byname[v.name] = i
                for name, val in pin.items():
                    if name in byname:
                        model.Add(model.get_int_var_from_proto_index(byname[name]) == int(val))
        return orig(self, model, solution_callback)

    cp_model.CpSolver.solve = solve
    cp_model.CpSolver.Solve = solve
    _state["installed"] = True


def _worker_init(seed):
    logging.disable(logging.CRITICAL)
    _state["seed"] = seed
    _install_wrappers()
    sys.setrecursionlimit(20000)


def compile_one(task):
    """task: dict(src, optimize, poles, capture, stub, name, source_name, cwd, env) -> result dict"""
    from dsl_compiler.cli import compile_dsl_source

    t0 = time.time()
    _state["solve_count"] = 0
    _state["capture"] = [] if task.get("capture") else None
    _state["stub"] = task.get("stub")
    res = {"key": task.get("key"), "ok": False}
    old_err = sys.stderr
    sys.stderr = io.StringIO()
    old_cwd = os.getcwd()
    try:
        if task.get("cwd"):
            os.chdir(task["cwd"])
        kw = {}
        if task.get("program_name"):
            kw["program_name"] = task["program_name"]
        ok, out, diags = compile_dsl_source(
            task["src"],
            source_name=task.get("source_name", "<string>"),
            optimize=task.get("optimize", True),
            log_level="error",
            power_pole_type=task.get("poles"),
            use_json=True,
            **kw,
        )
        res["ok"] = bool(ok)
        if ok:
            res["json"] = out
        else:
            res["error"] = str(out) + " :: " + " | ".join(str(d) for d in diags)[:2000]
    except BaseException as exc:  # SyntaxError/SemanticError etc.: program not accepted
        res["error"] = f"{type(exc).__name__}: {str(exc)[:1500]}"
        res["exc_type"] = type(exc).__name__
        if task.get("traceback"):
            res["traceback"] = traceback.format_exc()[-3000:]
        if isinstance(exc, (KeyboardInterrupt, SystemExit)):
            raise
    finally:
        sys.stderr = old_err
        os.chdir(old_cwd)
    if _state["capture"] is not None:
        res["protos"] = _state["capture"]
    res["solves"] = _state["solve_count"]
    res["secs"] = round(time.time() - t0, 3)
    _state["capture"] = None
    _state["stub"] = None
    return res


class Compiler:
    """Pool of worker processes running the real compiler."""

    def __init__(self, workers=None, seed=0):
        self.workers = workers or min(16, os.cpu_count() or 4)
        self.seed = seed
        self.pool = ProcessPoolExecutor(
            max_workers=self.workers, initializer=_worker_init, initargs=(seed,), max_tasks_per_child=40
        )
        self.count = 0
        self.secs = 0.0

    def map(self, tasks, fn=None):
        """yield results as they complete (each carries task['key'])"""
        fn = fn or compile_one
        futs = {self.pool.submit(fn, t): t for t in tasks}
        for f in as_completed(futs):
            t = futs[f]
            try:
                r = f.result()
            except Exception as exc:  # worker died
                r = {"key": t.get("key"), "ok": False, "error": f"worker failure: {exc!r}", "exc_type": "WorkerFailure"}
            self.count += 1
            self.secs += r.get("secs", 0)
            yield t, r

    def run(self, tasks):
        out = {}
        for t, r in self.map(tasks):
            out[t["key"]] = r
        return out

    def close(self):
        self.pool.shutdown(wait=True, cancel_futures=True)


def src_hash(src, opts=""):
    return hashlib.sha1((src + "\0" + str(opts)).encode()).hexdigest()[:12]


if __name__ == "__main__":
    # smoke test
    c = Compiler(workers=2)
    r = c.run([{"key": "a", "src": 'Signal a = ("signal-A", 5);\nSignal b = a * 3 + 2;\n'}])
    print({k: (v["ok"], v.get("error"), v["secs"], len(v.get("json", ""))) for k, v in r.items()})
    c.close()
