"""Compile driver: runs the REAL compiler (dsl_compiler.cli.compile_dsl_source from /repo's working
tree) in worker processes, with run-time wrappers around OR-tools' CpSolver.solve.

Wrappers (no source hooks):
  * deterministic placements: num_workers=1, fixed random_seed, a deterministic-time cap instead of
    the wall-clock limit -> same placement on every run and under load;
  * optional capture of every CpModel proto handed to the solver (engine E3);
  * optional outcome stubs: 'unknown:k' (first k solves answer UNKNOWN -> later strategies /
    fallback grid), 'pin' (position variables pinned to a z3-chosen assignment).
"""
from __future__ import annotations

import hashlib
import io
import json
import logging
import os
import sys
import time
import traceback

DET_TIME = float(os.environ.get("VERIF_DET_TIME", "0.15"))

_state = {"installed": False, "capture": None, "stub": None, "solve_count": 0, "seed": 0}


def _install_wrappers():
    if _state["installed"]:
        return
    from ortools.sat.python import cp_model

    orig = cp_model.CpSolver.solve

    def solve(self, model, solution_callback=None):
        _state["solve_count"] += 1
        n = _state["solve_count"]
        self.parameters.num_workers = 1
        self.parameters.random_seed = _state["seed"]
        self.parameters.max_deterministic_time = DET_TIME
        self.parameters.max_time_in_seconds = 600.0
        cap = _state["capture"]
        if cap is not None:
            eng = _state.get("cur_engine")
            from .cpsat2smt import proto_to_dict

            info = {"proto": proto_to_dict(model.Proto()), "solve": n, "strategy": _state.get("cur_strategy")}
            if eng is not None:
                info["entities"] = {
                    eid: {"type": pl.entity_type, "footprint": list(eng.footprints.get(eid, (1, 1))), "fixed": list(eng.fixed_positions[eid]) if eid in eng.fixed_positions else None,
                          "user": bool(pl.properties.get("user_specified_position")), "pos": list(pl.position) if pl.position is not None else None, "role": pl.role}
                    for eid, pl in eng.entity_placements.items() if eid in eng.footprints
                }
                info["connections"] = [list(c) for c in getattr(eng, "connections", [])]
            cap.append(info)
        stub = _state["stub"]
        if stub:
            if stub.get("unknown_first", 0) >= n:
                # a legal CP-SAT outcome under a (vanishing) time budget: the search is not started, status UNKNOWN
                self.parameters.stop_after_presolve = True
                self.parameters.cp_model_presolve = False
                self.parameters.max_time_in_seconds = 0.001
                st = orig(self, model, solution_callback)
                _state.setdefault("stub_status", []).append(int(st))
                return st
            pin = stub.get("pin")
            if pin and (stub.get("pin_all") or stub.get("pin_solve", n) == n):
                proto = model.Proto()
                byname = {}
                for i, v in enumerate(proto.variables):
                    if v.name:
                        byname[v.name] = i
                for name, val in pin.items():
                    if name in byname:
                        model.Add(model.get_int_var_from_proto_index(byname[name]) == int(val))
        return orig(self, model, solution_callback)

    cp_model.CpSolver.solve = solve
    cp_model.CpSolver.Solve = solve
    try:
        from dsl_compiler.src.layout import integer_layout_solver as ils

        orig_sws = ils.IntegerLayoutEngine._solve_with_strategy

        def _solve_with_strategy(self, strategy, *a, **kw):
            _state["cur_engine"], _state["cur_strategy"] = self, strategy.get("name")
            try:
                return orig_sws(self, strategy, *a, **kw)
            finally:
                _state["cur_engine"] = None

        ils.IntegerLayoutEngine._solve_with_strategy = _solve_with_strategy
    except Exception:  # noqa: BLE001
        pass
    _state["installed"] = True


def _worker_init(seed):
    logging.disable(logging.CRITICAL)
    _state["seed"] = seed
    _install_wrappers()
    sys.setrecursionlimit(20000)


def compile_one(task):
    """task: dict(src, optimize, poles, capture, stub, name, source_name, cwd, env) -> result dict"""
    from dsl_compiler.cli import compile_dsl_source

    t0 = time.time()
    _state["solve_count"] = 0
    _state["capture"] = [] if task.get("capture") else None
    _state["stub"] = task.get("stub")
    res = {"key": task.get("key"), "ok": False}
    old_err = sys.stderr
    sys.stderr = io.StringIO()
    old_cwd = os.getcwd()
    try:
        if task.get("cwd"):
            os.chdir(task["cwd"])
        kw = {}
        if task.get("program_name"):
            kw["program_name"] = task["program_name"]
        ok, out, diags = compile_dsl_source(
            task["src"],
            source_name=task.get("source_name", "<string>"),
            optimize=task.get("optimize", True),
            log_level="error",
            power_pole_type=task.get("poles"),
            use_json=True,
            **kw,
        )
        res["ok"] = bool(ok)
        if ok:
            res["json"] = out
        else:
            res["error"] = str(out) + " :: " + " | ".join(str(d) for d in diags)[:2000]
    except BaseException as exc:  # SyntaxError/SemanticError etc.: program not accepted
        res["error"] = f"{type(exc).__name__}: {str(exc)[:1500]}"
        res["exc_type"] = type(exc).__name__
        if task.get("traceback"):
            res["traceback"] = traceback.format_exc()[-3000:]
        if isinstance(exc, (KeyboardInterrupt, SystemExit)):
            raise
    finally:
        sys.stderr = old_err
        os.chdir(old_cwd)
    if _state["capture"] is not None:
        res["protos"] = _state["capture"]
    res["solves"] = _state["solve_count"]
    res["secs"] = round(time.time() - t0, 3)
    _state["capture"] = None
    _state["stub"] = None
    return res


def _worker_main(idx, seed, inq, outq):
    _worker_init(seed)
    import importlib

    while True:
        item = inq.get()
        if item is None:
            break
        tid, fn_path, task = item
        try:
            mod, name = fn_path.rsplit(".", 1)
            fn = getattr(importlib.import_module(mod), name)
            res = fn(task)
        except BaseException as exc:  # noqa: BLE001
            res = {"key": task.get("key"), "ok": False, "error": f"worker exception: {type(exc).__name__}: {exc}", "exc_type": "WorkerFailure"}
        outq.put((idx, tid, res))


class Compiler:
    """Pool of worker processes running the real compiler (and the solver queries of vf.work).

    Own implementation instead of concurrent.futures: workers are spawned (fresh interpreter, so no
    process-global compiler state leaks between batches), recycled after `recycle` tasks, killed and
    replaced when a task exceeds `task_timeout` seconds or the process dies; such a task is reported
    as a worker failure (never as a pass)."""

    def __init__(self, workers=None, seed=0, task_timeout=900, recycle=int(os.environ.get("VERIF_RECYCLE", "1"))):
        import multiprocessing as mp

        # one fixed interpreter configuration for all workers (spawned processes read it at start-up): makes
        # placements, relay counts and solver models reproducible from run to run
        os.environ["PYTHONHASHSEED"] = "0"
        self.ctx = mp.get_context("spawn")
        self.n = workers or min(16, os.cpu_count() or 4)
        self.seed = seed
        self.task_timeout = task_timeout
        self.recycle = recycle
        self.outq = self.ctx.Queue()
        self.procs = {}
        self.count = 0
        self.secs = 0.0

    def _spawn(self, idx):
        inq = self.ctx.Queue()
        p = self.ctx.Process(target=_worker_main, args=(idx, self.seed, inq, self.outq), daemon=True)
        p.start()
        self.procs[idx] = {"p": p, "inq": inq, "task": None, "t0": None, "done": 0}

    def _kill(self, idx):
        w = self.procs.get(idx)
        if not w:
            return
        try:
            w["p"].kill()
            w["p"].join(timeout=5)
        except Exception:  # noqa: BLE001
            pass

    def map(self, tasks, fn=None):
        """yield (task, result) as results complete"""
        import queue as _q

        fn_path = "vf.driver.compile_one" if fn is None else f"{fn.__module__}.{fn.__name__}"
        pending = list(enumerate(tasks))
        pending.reverse()
        inflight = {}
        n = min(self.n, max(1, len(tasks)))
        for i in range(n):
            if i not in self.procs or not self.procs[i]["p"].is_alive():
                self._spawn(i)
        idle = [i for i in range(n)]
        remaining = len(tasks)
        while remaining:
            while idle and pending:
                i = idle.pop()
                w = self.procs[i]
                if not w["p"].is_alive() or w["done"] >= self.recycle:
                    if w["p"].is_alive():
                        w["inq"].put(None)
                    self._spawn(i)
                    w = self.procs[i]
                tid, task = pending.pop()
                w["task"], w["t0"] = (tid, task), time.time()
                inflight[i] = (tid, task)
                w["inq"].put((tid, fn_path, task))
            try:
                i, tid, res = self.outq.get(timeout=2.0)
            except _q.Empty:
                now = time.time()
                for i, (tid, task) in list(inflight.items()):
                    w = self.procs[i]
                    dead = not w["p"].is_alive()
                    if dead or now - w["t0"] > self.task_timeout:
                        self._kill(i)
                        self._spawn(i)
                        del inflight[i]
                        idle.append(i)
                        remaining -= 1
                        why = "worker process died" if dead else f"task exceeded {self.task_timeout}s"
                        yield task, {"key": task.get("key"), "ok": False, "error": f"worker failure: {why}", "exc_type": "WorkerFailure"}
                continue
            if inflight.get(i, (None,))[0] != tid:
                continue  # stale result of a killed worker
            task = inflight.pop(i)[1]
            self.procs[i]["done"] += 1
            idle.append(i)
            remaining -= 1
            self.count += 1
            self.secs += res.get("secs", 0) if isinstance(res, dict) else 0
            yield task, res

    def run(self, tasks):
        out = {}
        for t, r in self.map(tasks):
            out[t["key"]] = r
        return out

    def close(self):
        for i, w in list(self.procs.items()):
            try:
                if w["p"].is_alive():
                    w["inq"].put(None)
            except Exception:  # noqa: BLE001
                pass
        t_end = time.time() + 3
        for i, w in list(self.procs.items()):
            w["p"].join(timeout=max(0.1, t_end - time.time()))
            if w["p"].is_alive():
                self._kill(i)
        self.procs = {}


def src_hash(src, opts=""):
    return hashlib.sha1((src + "\0" + str(opts)).encode()).hexdigest()[:12]


if __name__ == "__main__":
    # smoke test
    c = Compiler(workers=2)
    r = c.run([{"key": "a", "src": 'Signal a = ("signal-A", 5);\nSignal b = a * 3 + 2;\n'}])
    print({k: (v["ok"], v.get("error"), v["secs"], len(v.get("json", ""))) for k, v in r.items()})
    c.close()
