"""Developer probe: compile a Facto program (file or -e text) and dump the blueprint compactly."""
import json, sys
from dsl_compiler.cli import compile_dsl_source

def main():
    args = sys.argv[1:]
    opt = True
    if '--no-opt' in args:
        opt = False; args.remove('--no-opt')
    pp = None
    if '--poles' in args:
        i = args.index('--poles'); pp = args[i+1]; del args[i:i+2]
    if args[0] == '-e':
        src = args[1]
    else:
        src = open(args[0]).read()
    ok, res, diag = compile_dsl_source(src, optimize=opt, use_json=True, log_level='error', power_pole_type=pp)
    for d in diag: print('DIAG', d)
    if not ok:
        print('FAILED', res); return
    bp = json.loads(res)['blueprint']
    for e in bp['entities']:
        print(e['entity_number'], e['name'], e['position'], json.dumps(e.get('control_behavior')), '|', e.get('player_description'), {k:v for k,v in e.items() if k not in ('entity_number','name','position','control_behavior','player_description')})
    print('wires', bp.get('wires'))

main()
