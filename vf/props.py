"""Registry: per property, how its E1 corpus is generated, run and described."""
from __future__ import annotations

from . import families
from .runner import BUILDS2

COMMON_ASSUMPTIONS = [
    "Factorio 2.0 circuit-network model of /verif/vf/bp.py (DESIGN.md section 3) is the oracle for what a blueprint does",
    "uninterpreted corners: a**b for b outside 0..8, shift counts outside 0..31, INT_MIN/-1, INT_MIN%-1 (differences that exist only there are reported inconclusive)",
    "programs are enumerated from fixed corpora (/verif/corpus); only run-time values are symbolic",
    "CP-SAT placements made deterministic by wrapping CpSolver.solve (1 worker, fixed seed, deterministic-time cap)",
    "z3 4-valued verdict: only unsat counts as 'holds'; unknown/timeouts are inconclusive",
]

PROPS = {
    "C01": {
        "level": "translation_validation",
        "candidates": families.corpus_c01,
        "defaults": {"kind": "stateless", "builds": BUILDS2, "modes": ["full", "min"]},
        "keep_fail": 4,
        "what": "all int32 valuations of the declared inputs: every named output equals the generator-tree reference on its carrier signal",
        "bounds": "expression depth <= 3 (+ named intermediates), <= 4 inputs, constants from a boundary table; both builds; fully and minimally parenthesised text",
    },
}
