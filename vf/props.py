"""Registry: per property, how its E1 corpus is generated, run and described."""
from __future__ import annotations

from . import families
from .runner import BUILDS2

COMMON_ASSUMPTIONS = [
    "Factorio 2.0 circuit-network model of /verif/vf/bp.py (DESIGN.md section 3) is the oracle for what a blueprint does",
    "uninterpreted corners: a**b for b outside 0..8, shift counts outside 0..31, INT_MIN/-1, INT_MIN%-1 (differences that exist only there are reported inconclusive)",
    "programs are enumerated from fixed corpora (/verif/corpus); only run-time values are symbolic",
    "CP-SAT placements made deterministic by wrapping CpSolver.solve (1 worker, fixed seed, deterministic-time cap)",
    "z3 4-valued verdict: only unsat counts as 'holds'; unknown/timeouts are inconclusive",
]

PROPS = {
    "C05": {
        "level": "model_checking",
        "candidates": families.corpus_c05,
        "defaults": {"kind": "history", "builds": BUILDS2, "K": 4},
        "thorough_defaults": {"K": 5},
        "keep_fail": 3,
        "what": "bounded model checking: for ALL input histories of K steps from power-on (step 0 arbitrary, then at most one input changed per step, each held S ticks, inputs over all int32 - not only threshold boundaries) the readers equal the 4-row set/reset truth table with the declared priority: read_k = on_k ? v_k : 0",
        "bounds": "K = 4 steps; S = depth+4 ticks; set/reset given as signals are constrained to {0,1}; <= 3 inputs",
    },
    "C04": {
        "level": "model_checking",
        "candidates": families.corpus_c04,
        "defaults": {"kind": "loop", "builds": BUILDS2, "rounds": 3},
        "thorough_defaults": {"rounds": 4},
        "keep_fail": 3,
        "what": "bounded model checking from the all-zero power-on state: exists L in 1..Lmax such that for ALL held input valuations and all ticks t <= T-L the cell's value satisfies value(t+L) = f(value(t)), f taken from the generator's AST; every depth-1 reader follows the cell with a fixed delay",
        "bounds": "Lmax = min(#combinators+1, 8); T = 3L+4 ticks (three round trips); f = chain of 1..5 arithmetic steps; runs longer than T ticks are outside the claim",
    },
    "C03": {
        "level": "model_checking",
        "candidates": families.corpus_c03,
        "defaults": {"kind": "history", "builds": BUILDS2, "K": 4},
        "thorough_defaults": {"K": 5},
        "keep_fail": 3,
        "what": "bounded model checking: for ALL input histories of K steps from power-on (step 0 arbitrary, then at most one input changed per step, every step held S = depth+4 ticks) every reader/anchor equals the step-level reference read_k = (c_k > 0) ? v_k : read_{k-1} at the last two ticks of every step",
        "bounds": "K = 4 steps (quick) / 5 (thorough); S = longest acyclic combinator path + 4 ticks; <= 3 inputs; data/enable expression depth <= 2; 1-3 readers; histories longer than K steps are outside the claim",
    },
    "C02": {
        "level": "translation_validation",
        "candidates": families.corpus_c02,
        "defaults": {"kind": "stateless", "builds": BUILDS2, "modes": ["full"]},
        "keep_fail": 4,
        "what": "all int32 valuations of the declared inputs: every bundle-valued output equals the member-wise reference on EVERY signal of the universe (program signals + 2 fresh), scalar results (any/all/selection) on their carrier",
        "bounds": "<= 4 literal members per bundle, chains of <= 3 bundle operations, scalar operands constant or signal; bundle literal members given as declared inputs are symbolic, literal constants are concrete",
    },
    "C01": {
        "level": "translation_validation",
        "candidates": families.corpus_c01,
        "defaults": {"kind": "stateless", "builds": BUILDS2, "modes": ["full", "min"]},
        "keep_fail": 4,
        "what": "all int32 valuations of the declared inputs: every named output equals the generator-tree reference on its carrier signal",
        "bounds": "expression depth <= 3 (+ named intermediates), <= 4 inputs, constants from a boundary table; both builds; fully and minimally parenthesised text",
    },
}
