"""Registry: per property, how its E1 corpus is generated, run and described."""
from __future__ import annotations

from . import families
from .runner import BUILDS2

COMMON_ASSUMPTIONS = [
    "Factorio 2.0 circuit-network model of /verif/vf/bp.py (DESIGN.md section 3) is the oracle for what a blueprint does",
    "uninterpreted corners: a**b for b outside 0..8, shift counts outside 0..31, INT_MIN/-1, INT_MIN%-1 (differences that exist only there are reported inconclusive)",
    "programs are enumerated from fixed corpora (/verif/corpus); only run-time values are symbolic",
    "CP-SAT placements made deterministic by wrapping CpSolver.solve (1 worker, fixed seed, deterministic-time cap)",
    "z3 4-valued verdict: only unsat counts as 'holds'; unknown/timeouts are inconclusive",
]

PROPS = {
    "C17": {
        "level": "translation_validation",
        "candidates": families.corpus_c17,
        "defaults": {"kind": "stateless", "builds": BUILDS2, "modes": ["full"]},
        "keep_fail": 50,
        "what": "library: for ALL int32 arguments satisfying the documented no-overflow precondition (a formula) the compiled one-line caller of each lib/math.facto function equals its documented definition; imports: the importing program compiled from 3 working directories (project dir, /, a directory holding decoy files of the same names) equals the generator's pasted twin for ALL inputs and is accepted",
        "bounds": "13 library functions, int parameters from a boundary table; 13 import graphs (chain, diamond, cycle, self-cycle, twice, sub-directories, decoys, library inside an imported file); preprocess_imports itself is file I/O and is exercised concretely",
    },
    "C13": {
        "level": "translation_validation",
        "candidates": families.corpus_c13,
        "defaults": {"kind": "fresh", "builds": BUILDS2, "modes": ["full"]},
        "keep_fail": 3,
        "what": "closed clause per program: the signal given to every untyped declared value is no wildcard, not signal-W, not a signal the source writes explicitly, and typed values appear under exactly their name; solver clause: the program and its twin in which every untyped input has a fresh explicit type agree on every (explicitly projected) output and entity condition for ALL inputs",
        "bounds": "up to 45 untyped values per program (more than the 26 letters), explicit use of first letters / digits / items; outputs projected onto explicit signals",
    },
    "C15": {
        "level": "translation_validation",
        "candidates": families.corpus_c15,
        "defaults": {"kind": "stateless", "builds": BUILDS2, "modes": ["full"], "places": True},
        "keep_fail": 3,
        "what": "for ALL inputs the blueprint of a program with calls equals the generator's own call-by-substitution interpreter (parameters bound to argument values, fresh locals per call, return expression in place) on every output and entity condition; placed entities as a multiset; local memories per call site by K-step BMC",
        "bounds": "<= 3 call sites, nesting depth 2, int/Signal/Entity parameters, K = 3 for the memory case",
    },
    "C16": {
        "level": "translation_validation",
        "candidates": families.corpus_c16,
        "defaults": {"kind": "stateless", "builds": BUILDS2, "modes": ["full"], "places": True},
        "keep_fail": 3,
        "what": "for ALL inputs the blueprint of a program with loops equals the generator's own unrolling (a, a+s, ... strictly before b; listed values) on every entity condition and output; the multiset of placed entities equals the unrolled one (closed clause)",
        "bounds": "ranges within [-6, 10], steps within +-3, nesting <= 3, list iterators <= 4 values",
    },
    "C10": {
        "level": "translation_validation",
        "candidates": families.corpus_c10,
        "defaults": {"kind": "equiv", "builds": BUILDS2},
        "keep_fail": 3,
        "what": "equivalence of two blueprints of the same source (optimised vs --no-optimize): for ALL inputs every common named output (all signals of the universe for bundles) and every entity condition agree; for stateful programs for all K-step input histories the values at the end of every held step agree",
        "bounds": "programs of the C01/C02/C03/C05/C06 families plus optimisation-targeted fixed programs (duplicate sub-expressions differing in mode/type/order, folded constants in every consumer kind, fan-out 2..12); K = 4 steps for stateful programs",
    },
    "C12": {
        "level": "translation_validation",
        "candidates": families.corpus_c12,
        "defaults": {"kind": "equiv", "builds": BUILDS2, "acceptance_must_agree": False},
        "keep_fail": 3,
        "what": "for programs P and Q with disjoint names compiled together (order-preserving interleavings): for ALL inputs of P and of Q the outputs and entity conditions of P in build(P||Q) equal those of build(P), and likewise for Q (so no output of one depends on any input of the other)",
        "bounds": "pairs from the C01/C02/C03/C06 families with overlapping explicit signal names and constants, user entities 9 tiles apart; 3 interleavings (quick) / 6 (thorough) x 2 builds; K = 3 steps for memory pairs",
    },
    "C20": {
        "level": "translation_validation",
        "candidates": families.corpus_c20,
        "defaults": {"kind": "stateless", "builds": BUILDS2, "modes": ["full"], "naming": True},
        "keep_fail": 3,
        "what": "solver part: at the anchor labelled n the result's own signal (each member for a bundle) equals the reference value of n for ALL inputs, keyed by every top-level unconsumed name the generator knows; closed part per program: exactly one wired empty anchor per unconsumed name (or a labelled constant producer), none for consumed names, producer description carries name and source line, inputs labelled with name and value",
        "bounds": "as C01/C02 plus alias / CSE-duplicate / function-return / memory-read outputs; unconsumed-name bookkeeping is the generator's own",
    },
    "C06": {
        "level": "translation_validation",
        "candidates": families.corpus_c06,
        "defaults": {"kind": "stateless", "builds": BUILDS2, "modes": ["full"]},
        "keep_fail": 3,
        "what": "all int32 input valuations and all non-negative contents of every entity read through .output: the circuit condition of the entity at the user tile, evaluated on the networks wired to it, is true exactly when the assigned expression is positive (circuit_enabled must be set); named outputs as in C01/C02",
        "bounds": "1-5 entities per program, enable expression depth <= 2, entity contents: one fresh non-negative value per signal of the universe",
    },
    "C05": {
        "level": "model_checking",
        "candidates": families.corpus_c05,
        "defaults": {"kind": "history", "builds": BUILDS2, "K": 4},
        "thorough_defaults": {"K": 5},
        "keep_fail": 3,
        "what": "bounded model checking: for ALL input histories of K steps from power-on (step 0 arbitrary, then at most one input changed per step, each held S ticks, inputs over all int32 - not only threshold boundaries) the readers equal the 4-row set/reset truth table with the declared priority: read_k = on_k ? v_k : 0",
        "bounds": "K = 4 steps; S = depth+4 ticks; set/reset given as signals are constrained to {0,1}; <= 3 inputs",
    },
    "C04": {
        "level": "model_checking",
        "candidates": families.corpus_c04,
        "defaults": {"kind": "loop", "builds": BUILDS2, "rounds": 3},
        "thorough_defaults": {"rounds": 4},
        "keep_fail": 3,
        "what": "bounded model checking from the all-zero power-on state: exists L in 1..Lmax such that for ALL held input valuations and all ticks t <= T-L the cell's value satisfies value(t+L) = f(value(t)), f taken from the generator's AST; every depth-1 reader follows the cell with a fixed delay",
        "bounds": "Lmax = min(#combinators+1, 8); T = 3L+4 ticks (three round trips); f = chain of 1..5 arithmetic steps; runs longer than T ticks are outside the claim",
    },
    "C03": {
        "level": "model_checking",
        "candidates": families.corpus_c03,
        "defaults": {"kind": "history", "builds": BUILDS2, "K": 4},
        "thorough_defaults": {"K": 5},
        "keep_fail": 3,
        "what": "bounded model checking: for ALL input histories of K steps from power-on (step 0 arbitrary, then at most one input changed per step, every step held S = depth+4 ticks) every reader/anchor equals the step-level reference read_k = (c_k > 0) ? v_k : read_{k-1} at the last two ticks of every step",
        "bounds": "K = 4 steps (quick) / 5 (thorough); S = longest acyclic combinator path + 4 ticks; <= 3 inputs; data/enable expression depth <= 2; 1-3 readers; histories longer than K steps are outside the claim",
    },
    "C02": {
        "level": "translation_validation",
        "candidates": families.corpus_c02,
        "defaults": {"kind": "stateless", "builds": BUILDS2, "modes": ["full"]},
        "keep_fail": 4,
        "what": "all int32 valuations of the declared inputs: every bundle-valued output equals the member-wise reference on EVERY signal of the universe (program signals + 2 fresh), scalar results (any/all/selection) on their carrier",
        "bounds": "<= 4 literal members per bundle, chains of <= 3 bundle operations, scalar operands constant or signal; bundle literal members given as declared inputs are symbolic, literal constants are concrete",
    },
    "C01": {
        "level": "translation_validation",
        "candidates": families.corpus_c01,
        "defaults": {"kind": "stateless", "builds": BUILDS2, "modes": ["full", "min"]},
        "keep_fail": 4,
        "what": "all int32 valuations of the declared inputs: every named output equals the generator-tree reference on its carrier signal",
        "bounds": "expression depth <= 3 (+ named intermediates), <= 4 inputs, constants from a boundary table; both builds; fully and minimally parenthesised text",
    },
}
