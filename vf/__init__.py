"""Verification framework for Factompiler (solver-based).  The repository under test is /repo; maintainer tools may
point the framework at a scratch worktree with VERIF_REPO=<dir> (used only to evaluate seeded regressions without
touching /repo; the registered checks never set it)."""
import os
import sys

REPO = os.environ.get("VERIF_REPO", "/repo")
if REPO != "/repo" and REPO not in sys.path:
    sys.path.insert(0, REPO)
