"""Factorio 2.0 blueprint -> circuit model (networks, producers, transfer functions).

`Circuit` is built from the JSON text the compiler prints.  The evaluator is generic over a
value domain (vf.dom.Z3Dom for solver queries, vf.dom.IntDom for concrete replay).

Model (DESIGN.md section 3):
  * wires [e1, c1, e2, c2]; connector 1/2 = red/green (input side of combinators), 3/4 = red/green
    output side of arithmetic/decider/selector combinators, 5/6 = copper;
  * a network is a connected component of (entity, connector) pairs; the value of signal s on a
    network is the wrapped sum of what every producer attached to it emits for s;
  * producers: constant combinators (combinational), arithmetic/decider outputs (one tick late),
    content-emitting entities (containers, tanks, ...: a fresh non-negative value per signal);
  * blueprint defaults restored: operation '*', comparator '<', compare_type 'or',
    copy_count_from_input true, output constant 1, network selection red+green.
"""
from __future__ import annotations

import json
from dataclasses import dataclass, field

from .dom import arith

WILDCARDS = ("signal-each", "signal-anything", "signal-everything")
COMBINATOR_NAMES = ("arithmetic-combinator", "decider-combinator", "selector-combinator")

CMP_MAP = {
    "<": "<",
    ">": ">",
    "=": "==",
    "==": "==",
    "≠": "!=",
    "!=": "!=",
    "≥": ">=",
    ">=": ">=",
    "≤": "<=",
    "<=": "<=",
}

_PROTO_TYPE_CACHE: dict[str, str] = {}


def proto_type(name: str) -> str:
    if name not in _PROTO_TYPE_CACHE:
        try:
            from draftsman.data import entities

            _PROTO_TYPE_CACHE[name] = entities.raw[name]["type"]
        except Exception:
            _PROTO_TYPE_CACHE[name] = "unknown"
    return _PROTO_TYPE_CACHE[name]


# entity types whose circuit connection emits their contents (read through `.output`)
CONTENT_TYPES = {
    "container",
    "logistic-container",
    "infinity-container",
    "storage-tank",
    "roboport",
    "accumulator",
    "linked-container",
    "cargo-wagon",
}


class Unsupported(Exception):
    """The blueprint uses something the circuit model does not interpret (inconclusive)."""


class Cyclic(Exception):
    """Steady-state evaluation met a per-signal dependency cycle."""


@dataclass
class Ent:
    num: int
    name: str
    pos: tuple
    cb: dict
    desc: str
    raw: dict
    kind: str = ""  # arith | decider | const | pole | content | other

    @property
    def is_comb(self):
        return self.kind in ("arith", "decider")


def _sel(d):
    """network selection dict -> (red, green)"""
    if d is None:
        return (True, True)
    return (d.get("red", True), d.get("green", True))


def _signame(s):
    if s is None:
        return None
    if isinstance(s, str):
        return s
    return s.get("name")


class Circuit:
    def __init__(self, bp_json, extra_signals=("verif-fresh-1", "verif-fresh-2")):
        if isinstance(bp_json, str):
            bp_json = json.loads(bp_json)
        self.doc = bp_json
        bp = bp_json["blueprint"] if "blueprint" in bp_json else bp_json
        self.bp = bp
        self.ents: dict[int, Ent] = {}
        for e in bp.get("entities", []):
            ent = Ent(
                num=e["entity_number"],
                name=e["name"],
                pos=(e["position"]["x"], e["position"]["y"]),
                cb=e.get("control_behavior") or {},
                desc=e.get("player_description") or "",
                raw=e,
            )
            if ent.name == "arithmetic-combinator":
                ent.kind = "arith"
            elif ent.name == "decider-combinator":
                ent.kind = "decider"
            elif ent.name == "constant-combinator":
                ent.kind = "const"
            elif ent.name == "selector-combinator":
                ent.kind = "selector"
            else:
                t = proto_type(ent.name)
                if t == "electric-pole":
                    ent.kind = "pole"
                elif t in CONTENT_TYPES:
                    ent.kind = "content"
                else:
                    ent.kind = "other"
            self.ents[ent.num] = ent
        self.wires = [tuple(w) for w in bp.get("wires", [])]
        self._build_networks()
        self._collect_signals(extra_signals)

    # ------------------------------------------------------------------ networks
    def _build_networks(self):
        parent = {}

        def find(x):
            while parent.setdefault(x, x) != x:
                parent[x] = parent[parent[x]]
                x = parent[x]
            return x

        self.bad_wires = []
        for w in self.wires:
            e1, c1, e2, c2 = w
            if e1 not in self.ents or e2 not in self.ents:
                self.bad_wires.append((w, "dangling entity"))
                continue
            if c1 in (5, 6) or c2 in (5, 6):
                continue  # copper
            if (c1 % 2) != (c2 % 2):
                self.bad_wires.append((w, "colour mismatch"))
                continue
            a, b = find((e1, c1)), find((e2, c2))
            if a != b:
                parent[a] = b
        self._find = find
        self._parent = parent
        members = {}
        for x in list(parent):
            members.setdefault(find(x), []).append(x)
        self.net_members = members

    def net_of(self, ent, conn):
        """network id of a connector, or None if nothing is wired to it"""
        if (ent, conn) not in self._parent:
            return None
        return self._find((ent, conn))

    def in_nets(self, ent):
        """(red, green) networks on the input side / single connector of an entity"""
        return (self.net_of(ent, 1), self.net_of(ent, 2))

    def out_nets(self, ent):
        return (self.net_of(ent, 3), self.net_of(ent, 4))

    def producers(self, net):
        """[(entity, 'out'|'const'|'content')] attached to the network"""
        res = []
        for (e, c) in self.net_members.get(net, []):
            ent = self.ents[e]
            if ent.kind in ("arith", "decider", "selector"):
                if c in (3, 4):
                    res.append((e, "out"))
            elif ent.kind == "const":
                res.append((e, "const"))
            elif ent.kind == "content":
                res.append((e, "content"))
        # an entity attached twice to one network through the same side still emits once per
        # connector in the game only if connectors differ; (e,1) and (e,2) are different colours
        # hence different networks, so duplicates cannot arise except via out 3/4 which are
        # different colours as well.
        return sorted(set(res))

    # ------------------------------------------------------------------ signals
    def _collect_signals(self, extra):
        names = set()

        def walk(o):
            if isinstance(o, dict):
                if "name" in o and isinstance(o["name"], str) and (
                    "type" in o or "quality" in o or set(o) <= {"name", "type", "quality"}
                ):
                    names.add(o["name"])
                for v in o.values():
                    walk(v)
            elif isinstance(o, list):
                for v in o:
                    walk(v)

        for ent in self.ents.values():
            walk(ent.cb)
        self.named_signals = sorted(n for n in names if n not in WILDCARDS)
        self.universe = list(self.named_signals) + [x for x in extra if x not in names]

    # ------------------------------------------------------------------ lookups
    def const_filters(self, ent):
        """[(section_idx, filter_idx, name, count)] of a constant combinator"""
        res = []
        secs = ((ent.cb.get("sections") or {}).get("sections")) or []
        for si, sec in enumerate(secs):
            if sec.get("active", True) is False:
                continue
            for fi, f in enumerate(sec.get("filters") or []):
                if f.get("name") is None:
                    continue
                res.append((si, fi, f["name"], f.get("count", 0)))
        return res

    def find_desc(self, pred):
        return [e for e in self.ents.values() if pred(e.desc)]


# ======================================================================================
#  Evaluation
# ======================================================================================


class Evaluator:
    """Evaluates a Circuit over a domain.

    inputs(t)    : callable (entity_number, signal_name, default_count, tick) -> value or None
                   override for constant-combinator filters (None = keep the blueprint's constant)
    contents     : callable (entity_number, signal_name, tick) -> value for content entities
    """

    def __init__(self, circ: Circuit, dom, const_override=None, contents=None, universe=None):
        self.c = circ
        self.d = dom
        self.const_override = const_override or (lambda e, s, v, t: None)
        self.contents = contents or (lambda e, s, t: dom.const(0))
        self.U = list(universe) if universe is not None else list(circ.universe)
        self._steady = {}
        self._stack = set()
        self._tick = {}
        self.zero = dom.const(0)

    # ---------------------------------------------------------------- helpers
    def _sum(self, vals):
        vals = [v for v in vals if v is not None]
        if not vals:
            return self.zero
        acc = vals[0]
        for v in vals[1:]:
            acc = self.d.add(acc, v)
        return acc

    def _const_out(self, ent, sig, t):
        vals = []
        for (_si, _fi, name, count) in self.c.const_filters(ent):
            if name != sig:
                continue
            ov = self.const_override(ent.num, name, count, t)
            vals.append(ov if ov is not None else self.d.const(count))
        if ent.cb.get("is_on", True) is False:
            return self.zero
        return self._sum(vals) if vals else None

    # value of `sig` on network `net` (None net -> 0), time t (None = steady state)
    def net_val(self, net, sig, t):
        if net is None:
            return self.zero
        vals = []
        for (e, how) in self.c.producers(net):
            ent = self.c.ents[e]
            if how == "const":
                v = self._const_out(ent, sig, t)
                if v is not None:
                    vals.append(v)
            elif how == "content":
                vals.append(self.contents(e, sig, t))
            else:
                vals.append(self.out(e, sig, t))
        return self._sum(vals)

    def in_val(self, ent, sig, sel, t):
        """value an entity reads for `sig` on its input side, with a (red, green) selection"""
        rn, gn = self.c.in_nets(ent.num)
        parts = []
        if sel[0] and rn is not None:
            parts.append(self.net_val(rn, sig, t))
        if sel[1] and gn is not None:
            parts.append(self.net_val(gn, sig, t))
        return self._sum(parts)

    # ---------------------------------------------------------------- combinator output
    def out(self, e, sig, t):
        """output of combinator e for signal sig.  t=None: steady state (raises Cyclic);
        t=int: value visible during tick t (computed from tick t-1); everything is 0 at t<=0."""
        if t is None:
            key = (e, sig)
            if key in self._steady:
                return self._steady[key]
            if key in self._stack:
                raise Cyclic(key)
            self._stack.add(key)
            try:
                v = self._compute(self.c.ents[e], sig, None)
            finally:
                self._stack.discard(key)
            self._steady[key] = v
            return v
        if t <= 0:
            return self.initial_state(e, sig)
        key = (e, sig, t)
        if key not in self._tick:
            self._tick[key] = self._compute(self.c.ents[e], sig, t - 1)
        return self._tick[key]

    def initial_state(self, e, sig):
        return self.zero

    def _compute(self, ent, sig, t):
        if ent.kind == "arith":
            return self._arith(ent, sig, t)
        if ent.kind == "decider":
            return self._decider(ent, sig, t)
        raise Unsupported(f"combinator kind {ent.name}")

    # ---------------------------------------------------------------- arithmetic
    def _arith(self, ent, sig, t):
        d = self.d
        ac = ent.cb.get("arithmetic_conditions") or {}
        op = ac.get("operation", "*")
        out_sig = _signame(ac.get("output_signal"))
        if out_sig is None:
            return self.zero
        fs, ss = _signame(ac.get("first_signal")), _signame(ac.get("second_signal"))
        fsel, ssel = _sel(ac.get("first_signal_networks")), _sel(ac.get("second_signal_networks"))
        for w in ("signal-anything", "signal-everything"):
            if w in (fs, ss, out_sig):
                raise Unsupported(f"{w} in arithmetic combinator")

        def operand(which, each_sig):
            s = fs if which == 0 else ss
            sel = fsel if which == 0 else ssel
            if s is None:
                k = ac.get("first_constant" if which == 0 else "second_constant", 0)
                if k is None:
                    k = 0
                return d.const(k)
            if s == "signal-each":
                return self.in_val(ent, each_sig, sel, t)
            return self.in_val(ent, s, sel, t)

        has_each = "signal-each" in (fs, ss)
        if not has_each:
            if out_sig == "signal-each":
                return self.zero  # invalid configuration: outputs nothing
            if out_sig != sig:
                return self.zero
            return arith(d, op, operand(0, None), operand(1, None))
        if fs == "signal-each" and ss == "signal-each":
            raise Unsupported("each on both operands")
        each_which = 0 if fs == "signal-each" else 1
        each_sel = fsel if each_which == 0 else ssel

        def result_for(s):
            ev = self.in_val(ent, s, each_sel, t)
            r = arith(d, op, operand(0, s), operand(1, s))
            return d.ite(d.cmp("!=", ev, self.zero), r, self.zero)

        if out_sig == "signal-each":
            if sig not in self.U:
                return self.zero
            return result_for(sig)
        if out_sig != sig:
            return self.zero
        return self._sum([result_for(s) for s in self.U])

    # ---------------------------------------------------------------- decider
    def _decider(self, ent, sig, t):
        d = self.d
        dc = ent.cb.get("decider_conditions") or {}
        conds = dc.get("conditions") or []
        outs = dc.get("outputs") or []
        if not outs:
            return self.zero
        cond_sigs = [_signame(c.get("first_signal")) for c in conds] + [
            _signame(c.get("second_signal")) for c in conds
        ]
        has_each = "signal-each" in cond_sigs

        def operand_val(c, which, each_sig):
            if which == 0:
                s, sel = _signame(c.get("first_signal")), _sel(c.get("first_signal_networks"))
            else:
                s, sel = _signame(c.get("second_signal")), _sel(c.get("second_signal_networks"))
                if s is None:
                    return d.const(c.get("constant", 0) or 0)
            if s is None:
                return self.zero
            if s == "signal-each":
                return self.in_val(ent, each_sig, sel, t)
            return self.in_val(ent, s, sel, t)

        def one_cond(c, each_sig):
            op = CMP_MAP[c.get("comparator", "<")]
            fs = _signame(c.get("first_signal"))
            ss = _signame(c.get("second_signal"))
            if ss in ("signal-anything", "signal-everything"):
                raise Unsupported("wildcard as second operand")
            if fs in ("signal-anything", "signal-everything"):
                sel = _sel(c.get("first_signal_networks"))
                rhs = operand_val(c, 1, each_sig)
                terms = []
                for s in self.U:
                    v = self.in_val(ent, s, sel, t)
                    nz = d.cmp("!=", v, self.zero)
                    ok = d.cmp(op, v, rhs)
                    if fs == "signal-everything":
                        terms.append(d.or_(d.not_(nz), ok))
                    else:
                        terms.append(d.and_(nz, ok))
                return d.and_(*terms) if fs == "signal-everything" else d.or_(*terms)
            if fs is None:
                # no first signal: Factorio treats the condition as false
                return d.false()
            return d.cmp(op, operand_val(c, 0, each_sig), operand_val(c, 1, each_sig))

        def all_conds(each_sig):
            if not conds:
                return d.false()
            # AND binds tighter than OR: disjunction of conjunction groups
            groups = []
            cur = []
            for i, c in enumerate(conds):
                ct = c.get("compare_type", "or")
                v = one_cond(c, each_sig)
                if i == 0 or ct == "and":
                    cur.append(v)
                else:
                    groups.append(cur)
                    cur = [v]
            groups.append(cur)
            return d.or_(*[d.and_(*g) for g in groups])

        def each_set_nonzero(s):
            """is s in the set `each` ranges over: non-zero on the each-operand's networks"""
            terms = []
            for c in conds:
                if _signame(c.get("first_signal")) == "signal-each":
                    terms.append(d.cmp("!=", self.in_val(ent, s, _sel(c.get("first_signal_networks")), t), self.zero))
                if _signame(c.get("second_signal")) == "signal-each":
                    terms.append(d.cmp("!=", self.in_val(ent, s, _sel(c.get("second_signal_networks")), t), self.zero))
            return d.or_(*terms)

        total = []
        for o in outs:
            osig = _signame(o.get("signal"))
            if osig is None:
                continue
            copy = o.get("copy_count_from_input", True)
            k = o.get("constant", 1)
            osel = _sel(o.get("networks"))
            if osig == "signal-anything":
                raise Unsupported("signal-anything as decider output")
            if has_each:
                if osig == "signal-each":
                    if sig not in self.U:
                        continue
                    passing = d.and_(each_set_nonzero(sig), all_conds(sig))
                    val = self.in_val(ent, sig, osel, t) if copy else d.const(k)
                    total.append(d.ite(passing, val, self.zero))
                elif osig == "signal-everything":
                    raise Unsupported("everything output with each condition")
                elif osig == sig:
                    for s in self.U:
                        passing = d.and_(each_set_nonzero(s), all_conds(s))
                        val = self.in_val(ent, s, osel, t) if copy else d.const(k)
                        total.append(d.ite(passing, val, self.zero))
            else:
                if osig == "signal-each":
                    continue  # invalid: nothing
                cond = all_conds(None)
                if osig == "signal-everything":
                    if sig not in self.U:
                        continue
                    # every non-zero input signal (any colour) is output
                    anyv = self.in_val(ent, sig, (True, True), t)
                    present = d.cmp("!=", anyv, self.zero)
                    val = self.in_val(ent, sig, osel, t) if copy else d.const(k)
                    total.append(d.ite(d.and_(cond, present), val, self.zero))
                elif osig == sig:
                    val = self.in_val(ent, sig, osel, t) if copy else d.const(k)
                    total.append(d.ite(cond, val, self.zero))
        return self._sum(total)

    # ---------------------------------------------------------------- entity conditions
    def circuit_condition(self, ent, t):
        """(enabled_flag_present, condition value) of a non-combinator entity"""
        d = self.d
        cb = ent.cb
        cc = cb.get("circuit_condition")
        enabled = cb.get("circuit_enabled", cb.get("circuit_enable_disable", False))
        if cc is None:
            return enabled, None
        fs = _signame(cc.get("first_signal"))
        ss = _signame(cc.get("second_signal"))
        op = CMP_MAP[cc.get("comparator", "<")]
        rhs = self.in_val(ent, ss, (True, True), t) if ss else d.const(cc.get("constant", 0) or 0)
        if fs is None:
            return enabled, d.false()
        if fs in ("signal-anything", "signal-everything"):
            terms = []
            for s in self.U:
                v = self.in_val(ent, s, (True, True), t)
                nz = d.cmp("!=", v, self.zero)
                ok = d.cmp(op, v, rhs)
                terms.append(d.or_(d.not_(nz), ok) if fs == "signal-everything" else d.and_(nz, ok))
            return enabled, (d.and_(*terms) if fs == "signal-everything" else d.or_(*terms))
        if fs == "signal-each":
            raise Unsupported("each in entity condition")
        return enabled, d.cmp(op, self.in_val(ent, fs, (True, True), t), rhs)

    # ---------------------------------------------------------------- observation
    def read_all(self, ent_num, t, conn=(1, 2), sigs=None):
        """{signal: value} visible on the given connectors of an entity (red+green summed)"""
        res = {}
        nets = [self.c.net_of(ent_num, c) for c in conn]
        for s in (sigs if sigs is not None else self.U):
            res[s] = self._sum([self.net_val(n, s, t) for n in nets if n is not None])
        return res

    # ---------------------------------------------------------------- structure helpers
    def depth_bound(self):
        """longest acyclic chain of combinators (entity-level, conservative upper bound)"""
        c = self.c
        succ = {}
        for e, ent in c.ents.items():
            if ent.kind not in ("arith", "decider"):
                continue
            outs = [n for n in c.out_nets(e) if n is not None]
            nxt = set()
            for n in outs:
                for (e2, conn) in c.net_members.get(n, []):
                    if conn in (1, 2) and c.ents[e2].kind in ("arith", "decider"):
                        nxt.add(e2)
            succ[e] = nxt
        # longest path ignoring back edges (DFS with colouring)
        memo, onstack = {}, set()

        def lp(u):
            if u in memo:
                return memo[u]
            if u in onstack:
                return 0
            onstack.add(u)
            best = 0
            for v in succ.get(u, ()):
                best = max(best, lp(v))
            onstack.discard(u)
            memo[u] = best + 1
            return memo[u]

        return max([lp(u) for u in succ] + [0])
