"""C07: the printed blueprint text carries the whole planned circuit (decoded CLI output D vs planned circuit P)."""
from __future__ import annotations

import base64
import hashlib
import json
import os
import shutil
import subprocess
import sys
import tempfile
import zlib

from . import engine
from .gen import program_src
from .plan2bp import norm_cb

PY = sys.executable


def decode(text, as_json):
    text = text.strip()
    if as_json:
        return json.loads(text)
    if not text or text[0] != "0":
        raise ValueError("blueprint string does not start with version byte '0'")
    return json.loads(zlib.decompress(base64.b64decode(text[1:])).decode("utf-8"))


def canon(doc):
    bp = doc["blueprint"]
    ents = sorted((e["name"], round(e["position"]["x"], 2), round(e["position"]["y"], 2), repr(norm_cb(e["name"], e.get("control_behavior")))) for e in bp.get("entities", []))
    pos = {e["entity_number"]: (e["name"], round(e["position"]["x"], 2), round(e["position"]["y"], 2)) for e in bp.get("entities", [])}
    wires = sorted(tuple(sorted([(pos.get(w[0]), w[1]), (pos.get(w[2]), w[3])], key=repr)) for w in bp.get("wires", []) if w[1] <= 4 and w[3] <= 4)
    return ents, wires


def structural_diff(D, P):
    """entity-by-entity and wire-by-wire comparison of decoded text and planned circuit (modulo numbering)"""
    problems = []
    de, dw = canon(D)
    pe, pw = canon(P)
    dset, pset = {(n, x, y): cb for (n, x, y, cb) in de}, {(n, x, y): cb for (n, x, y, cb) in pe}
    for k in pset:
        if k not in dset:
            problems.append(f"planned entity {k} missing from the text")
        elif dset[k] != pset[k]:
            problems.append(f"entity {k}: configuration in the text {dset[k]} differs from the plan {pset[k]}")
    for k in dset:
        if k not in pset and k[0] not in ("medium-electric-pole", "small-electric-pole", "big-electric-pole", "substation"):
            problems.append(f"text has unplanned entity {k}")
    dws, pws = set(map(repr, dw)), set(map(repr, pw))
    for w in pw:
        if repr(w) not in dws:
            problems.append(f"planned wire {w} missing from the text")
    for w in dw:
        if repr(w) not in pws:
            problems.append(f"text has unplanned circuit wire {w}")
    return problems


def cell_args(cell, prog_path, src, out_path):
    args = []
    if cell["input"] == "file":
        args.append(prog_path)
    else:
        args += ["-i", src]
    if cell["json"]:
        args.append("--json")
    if cell["out"] == "file":
        args += ["-o", out_path]
    opt = cell.get("opt")
    if opt == "no-optimize":
        args.append("--no-optimize")
    elif opt and opt.startswith("poles:"):
        args += ["--power-poles", opt.split(":")[1]]
    elif opt == "name":
        args += ["--name", "Verif Name"]
    args += ["--log-level", "error"]
    return args


def task_cli(task, rec, out):
    """one program x one invocation cell"""
    stmts, cell = task["stmts"], task["cell"]
    src = program_src(stmts)
    root = tempfile.mkdtemp(prefix="verif-c07-")
    key = f"{task['key']}"
    try:
        prog = os.path.join(root, "prog.facto")
        with open(prog, "w") as f:
            f.write(src)
        outp = os.path.join(root, "out", "bp.txt")
        planp = os.path.join(root, "plan.json")
        cmd = [PY, "-m", "vf.cli_run", cell["entry"], planp, "--"] + cell_args(cell, prog, src, outp)
        env = dict(os.environ)
        from . import REPO

        env["PYTHONPATH"] = "/verif" + (":" + REPO if REPO != "/repo" else "") + (":" + env["PYTHONPATH"] if env.get("PYTHONPATH") else "")
        env["PYTHONHASHSEED"] = "0"  # one fixed configuration, so that all cells of a program are comparable
        p = subprocess.run(cmd, cwd=root, capture_output=True, text=True, timeout=600, env=env)
        out["compiled"].append({"tag": json.dumps(cell, sort_keys=True), "ok": p.returncode == 0, "error": p.stderr[-300:] if p.returncode else "", "secs": None, "entities": None})
        if p.returncode != 0:
            out["findings"].append({"key": key + ":exit", "what": f"CLI exited {p.returncode}: {p.stderr[-200:]}", "kind": "cli-exit", "closed": True, "src": src, "cell": cell})
            return
        out["ok_builds"] += 1
        if cell["out"] == "file":
            if not os.path.exists(outp):
                out["findings"].append({"key": key + ":nofile", "what": "-o file was not written", "kind": "cli-output", "closed": True, "src": src, "cell": cell})
                return
            text = open(outp).read()
            if p.stdout.strip():
                out["findings"].append({"key": key + ":stdout", "what": f"-o given but stdout is not empty: {p.stdout[:80]!r}", "kind": "cli-output", "closed": True, "src": src, "cell": cell})
        else:
            text = p.stdout
        try:
            D = decode(text, cell["json"])
        except Exception as exc:  # noqa: BLE001
            out["findings"].append({"key": key + ":decode", "what": f"emitted text does not decode: {exc!r}", "kind": "cli-decode", "closed": True, "src": src, "cell": cell})
            return
        try:
            P = json.load(open(planp))
        except Exception as exc:  # noqa: BLE001
            rec.harness_error(key, f"planned circuit was not captured: {exc!r}")
            return
        if "error" in P:
            rec.harness_error(key, f"plan capture failed: {P['error']}")
            return
        ents, wires = canon(D)
        out["canon_hash"] = hashlib.sha1(repr((ents, wires)).encode()).hexdigest()
        out["group"] = task["group"]
        out["label"] = D["blueprint"].get("label")
        if cell.get("opt") == "name" and D["blueprint"].get("label") != "Verif Name Blueprint":
            out["findings"].append({"key": key + ":name", "what": f"--name not applied: label {D['blueprint'].get('label')!r}", "kind": "cli-name", "closed": True, "src": src, "cell": cell})
        for pr in structural_diff(D, P)[:6]:
            out["findings"].append({"key": key + ":struct", "what": pr[:400], "kind": "cli-struct", "closed": True, "src": src, "cell": cell})
        # behaviour: executing the decoded text == executing the planned circuit, for all inputs / K-step histories
        sd, sp = engine.Session(stmts, D), engine.Session(stmts, P)
        fs = engine.check_equiv(sd, sp, rec, key, K=task.get("K"), bool_inputs=task.get("bool_inputs", ()))
        for f in fs:
            f["src"] = src
            f["cell"] = cell
        out["findings"] += fs
    finally:
        shutil.rmtree(root, ignore_errors=True)
