"""Regression suite of the circuit model itself: hand-computed micro-blueprints (documented Factorio 2.0 behaviour:
wiki 'Arithmetic combinator', 'Decider combinator', FFF-384) evaluated by both value domains.  Run by every check
before it trusts the model; a failure is a harness error (exit 2), never a verdict."""
from __future__ import annotations

import z3

from .bp import Circuit, Evaluator
from .dom import IntDom, Z3Dom, wrap32


def V(name):
    return {"type": "virtual", "name": name}


def const(num, sigs):
    return {"entity_number": num, "name": "constant-combinator", "position": {"x": num, "y": 0},
            "control_behavior": {"sections": {"sections": [{"index": 1, "filters": [{"index": i + 1, "name": n, "count": c, "quality": "normal", "comparator": "="} for i, (n, c) in enumerate(sigs.items())]}]}}}


def arith(num, **ac):
    return {"entity_number": num, "name": "arithmetic-combinator", "position": {"x": num, "y": 2}, "control_behavior": {"arithmetic_conditions": ac}}


def decider(num, conditions, outputs):
    return {"entity_number": num, "name": "decider-combinator", "position": {"x": num, "y": 4}, "control_behavior": {"decider_conditions": {"conditions": conditions, "outputs": outputs}}}


def bp(ents, wires):
    return {"blueprint": {"entities": ents, "wires": wires}}


CASES = []


def case(name, doc, observe, expect, ticks=None):
    CASES.append((name, doc, observe, expect, ticks))


# 1. arithmetic defaults: operation '*' when omitted; network sum of two constants on one wire
case("arith-default-op-and-sum", bp([const(1, {"signal-A": 5}), const(2, {"signal-A": 2}), arith(3, first_signal=V("signal-A"), second_constant=3, output_signal=V("signal-B"))], [[1, 1, 3, 1], [2, 1, 3, 1]]), (3, "signal-B"), 21)
# 2. truncating division and remainder sign, division by zero
case("div-trunc", bp([const(1, {"signal-A": -7}), arith(2, first_signal=V("signal-A"), operation="/", second_constant=2, output_signal=V("signal-B"))], [[1, 1, 2, 1]]), (2, "signal-B"), -3)
case("mod-sign", bp([const(1, {"signal-A": -7}), arith(2, first_signal=V("signal-A"), operation="%", second_constant=2, output_signal=V("signal-B"))], [[1, 1, 2, 1]]), (2, "signal-B"), -1)
case("div-zero", bp([const(1, {"signal-A": 9}), arith(2, first_signal=V("signal-A"), operation="/", second_constant=0, output_signal=V("signal-B"))], [[1, 1, 2, 1]]), (2, "signal-B"), 0)
# 3. wrap-around and arithmetic shift
case("mul-wrap", bp([const(1, {"signal-A": 65536}), arith(2, first_signal=V("signal-A"), operation="*", second_signal=V("signal-A"), output_signal=V("signal-B"))], [[1, 1, 2, 1]]), (2, "signal-B"), 0)
case("shr-arith", bp([const(1, {"signal-A": -16}), arith(2, first_signal=V("signal-A"), operation=">>", second_constant=2, output_signal=V("signal-B"))], [[1, 1, 2, 1]]), (2, "signal-B"), -4)
# 4. per-operand network selection: first operand red only, second green only
case("network-selection", bp([const(1, {"signal-A": 10}), const(2, {"signal-A": 3}), arith(3, first_signal=V("signal-A"), first_signal_networks={"green": False}, operation="-", second_signal=V("signal-A"), second_signal_networks={"red": False}, output_signal=V("signal-B"))],
                             [[1, 1, 3, 1], [2, 2, 3, 2]]), (3, "signal-B"), 7)
# 5. each: only non-zero inputs, per-signal output; each with named output sums
case("each-per-signal", bp([const(1, {"signal-A": 4, "signal-B": 0, "signal-C": -2}), arith(2, first_signal=V("signal-each"), operation="+", second_constant=10, output_signal=V("signal-each"))], [[1, 1, 2, 1]]), (2, "signal-B"), 0)
case("each-per-signal-2", bp([const(1, {"signal-A": 4, "signal-B": 0, "signal-C": -2}), arith(2, first_signal=V("signal-each"), operation="+", second_constant=10, output_signal=V("signal-each"))], [[1, 1, 2, 1]]), (2, "signal-C"), 8)
case("each-sum", bp([const(1, {"signal-A": 4, "signal-C": -2}), arith(2, first_signal=V("signal-each"), operation="*", second_constant=3, output_signal=V("signal-X"))], [[1, 1, 2, 1]]), (2, "signal-X"), 6)
# 6. decider defaults: comparator '<', copy_count_from_input true; constant output
case("decider-default-lt-copy", bp([const(1, {"signal-A": -5}), decider(2, [{"first_signal": V("signal-A"), "constant": 0}], [{"signal": V("signal-A")}])], [[1, 1, 2, 1]]), (2, "signal-A"), -5)
case("decider-constant-output", bp([const(1, {"signal-A": 7}), decider(2, [{"first_signal": V("signal-A"), "comparator": ">", "constant": 3}], [{"signal": V("signal-B"), "copy_count_from_input": False, "constant": 42}])], [[1, 1, 2, 1]]), (2, "signal-B"), 42)
# 7. AND binds tighter than OR:  A>0 OR (B>0 AND C>0) with A=1,B=0,C=0 -> true ; (left-to-right would also be true) ;
#    A>0 AND B>0 OR C>0 with A=0,B=1,C=1 -> true under AND-first (C>0), true left-to-right too; decisive case:
#    A>0 OR B>0 AND C>0 with A=1, B=1, C=0: AND-first: A OR (B AND C) = true; left-to-right: (A OR B) AND C = false
case("and-before-or", bp([const(1, {"signal-A": 1, "signal-B": 1}),
                          decider(2, [{"first_signal": V("signal-A"), "comparator": ">", "constant": 0}, {"first_signal": V("signal-B"), "comparator": ">", "constant": 0, "compare_type": "or"}, {"first_signal": V("signal-C"), "comparator": ">", "constant": 0, "compare_type": "and"}],
                                  [{"signal": V("signal-X"), "copy_count_from_input": False, "constant": 1}])], [[1, 1, 2, 1]]), (2, "signal-X"), 1)
# 8. everything is true on an empty input, anything false
case("everything-empty", bp([decider(1, [{"first_signal": V("signal-everything"), "comparator": ">", "constant": 5}], [{"signal": V("signal-X"), "copy_count_from_input": False, "constant": 1}])], []), (1, "signal-X"), 1)
case("anything-empty", bp([decider(1, [{"first_signal": V("signal-anything"), "comparator": ">", "constant": 5}], [{"signal": V("signal-X"), "copy_count_from_input": False, "constant": 1}])], []), (1, "signal-X"), 0)
# 9. each filter with copy from a selected network; everything-output gate copies only the selected colour
case("each-filter", bp([const(1, {"signal-A": 10, "signal-B": 3}), decider(2, [{"first_signal": V("signal-each"), "comparator": ">", "constant": 5}], [{"signal": V("signal-each")}])], [[1, 1, 2, 1]]), (2, "signal-B"), 0)
case("gate-everything-red-only", bp([const(1, {"signal-A": 10}), const(2, {"signal-S": 9}),
                                     decider(3, [{"first_signal": V("signal-S"), "first_signal_networks": {"red": False}, "comparator": ">", "constant": 2}], [{"signal": V("signal-everything"), "networks": {"green": False}}])],
                                    [[1, 1, 3, 1], [2, 2, 3, 2]]), (3, "signal-S"), 0)
# 10. one tick of latency per combinator: a self-fed counter reads t-1 ... after 5 ticks = 5
case("counter-latency", bp([const(1, {"signal-A": 1}), arith(2, first_signal=V("signal-A"), operation="+", second_constant=0, output_signal=V("signal-A"))], [[1, 1, 2, 1], [2, 3, 2, 1]]), (2, "signal-A"), 5, 5)


def run_selftest():
    """returns a list of failure strings (empty = model regression suite passes in both domains)"""
    fails = []
    for (name, doc, (ent, sig), expect, ticks) in CASES:
        circ = Circuit(doc)
        got_i = Evaluator(circ, IntDom()).out(ent, sig, ticks)
        zd = Z3Dom()
        got_z = z3.simplify(Evaluator(circ, zd).out(ent, sig, ticks))
        got_z = wrap32(got_z.as_long()) if z3.is_bv_value(got_z) else None
        if got_i != expect or got_z != expect:
            fails.append(f"{name}: expected {expect}, IntDom {got_i}, Z3Dom {got_z}")
    return fails


if __name__ == "__main__":
    f = run_selftest()
    print("model selftest:", "ok" if not f else f, len(CASES), "cases")
