"""Closed (variable-free) geometric clauses evaluated on an emitted blueprint with draftsman's game data:
collision boxes, wire endpoints / colours / reach (C08), power-pole coverage and copper connectivity (C18)."""
from __future__ import annotations

import math

from .bp import Circuit, proto_type


def raw(name):
    from draftsman.data import entities

    return entities.raw.get(name) or {}


def collision_box(ent):
    """axis-aligned (x1, y1, x2, y2) of the entity's collision box at its position (rotated by direction)"""
    cb = raw(ent.name).get("collision_box") or [[-0.4, -0.4], [0.4, 0.4]]
    (x1, y1), (x2, y2) = cb
    d = ent.raw.get("direction", 0) or 0
    if d in (4, 12):  # east / west (16-way encoding): swap axes
        x1, y1, x2, y2 = y1, x1, y2, x2
        x1, x2 = min(x1, x2), max(x1, x2)
        y1, y2 = min(y1, y2), max(y1, y2)
    px, py = ent.pos
    return (px + x1, py + y1, px + x2, py + y2)


def wire_reach(name):
    r = raw(name)
    v = r.get("circuit_wire_max_distance")
    if v in (None, 0):
        v = r.get("maximum_wire_distance") or r.get("wire_max_distance") or 0
    return float(v)


def copper_reach(name):
    r = raw(name)
    return float(r.get("maximum_wire_distance") or r.get("wire_max_distance") or 0)


def valid_connectors(ent):
    t = proto_type(ent.name)
    if t in ("arithmetic-combinator", "decider-combinator", "selector-combinator"):
        return {1, 2, 3, 4}
    if t == "electric-pole":
        return {1, 2, 5}
    if t == "power-switch":
        return {1, 2, 5, 6}
    return {1, 2}


def paste_problems(circ: Circuit):
    """[(kind, text)] for everything that would prevent pasting the blueprint as the compiler meant it"""
    out = []
    ents = list(circ.ents.values())
    boxes = {e.num: collision_box(e) for e in ents}
    eps = 1e-6
    for i, a in enumerate(ents):
        ax1, ay1, ax2, ay2 = boxes[a.num]
        for b in ents[i + 1 :]:
            bx1, by1, bx2, by2 = boxes[b.num]
            if ax1 < bx2 - eps and bx1 < ax2 - eps and ay1 < by2 - eps and by1 < ay2 - eps:
                out.append(("overlap", f"{a.name}#{a.num}@{a.pos} and {b.name}#{b.num}@{b.pos} have intersecting collision boxes"))
    for w in circ.wires:
        e1, c1, e2, c2 = w
        if e1 not in circ.ents or e2 not in circ.ents:
            out.append(("wire-dangling", f"wire {w} names a missing entity"))
            continue
        a, b = circ.ents[e1], circ.ents[e2]
        if c1 not in valid_connectors(a) or c2 not in valid_connectors(b):
            out.append(("wire-connector", f"wire {w}: connector not present on {a.name} / {b.name}"))
            continue
        copper = c1 >= 5 or c2 >= 5
        if copper != (c1 >= 5 and c2 >= 5):
            out.append(("wire-colour", f"wire {w} joins a copper and a circuit connector"))
            continue
        if not copper and (c1 % 2) != (c2 % 2):
            out.append(("wire-colour", f"wire {w} has different colours at its two ends"))
            continue
        dist = math.hypot(a.pos[0] - b.pos[0], a.pos[1] - b.pos[1])
        reach = min(copper_reach(a.name), copper_reach(b.name)) if copper else min(wire_reach(a.name), wire_reach(b.name))
        if dist > reach + 1e-6:
            out.append(("wire-reach", f"{'copper' if copper else 'circuit'} wire {a.name}#{e1}@{a.pos} -- {b.name}#{e2}@{b.pos} is {dist:.2f} tiles long, reach is {reach}"))
    return out


def consumes_electricity(name):
    es = raw(name).get("energy_source") or {}
    return es.get("type") == "electric"


def power_problems(circ: Circuit, pole_type, user_pole_tiles=()):
    """C18 clauses on an emitted blueprint.  pole_type None: no pole other than circuit relays may be present."""
    out = []
    names = {"small": "small-electric-pole", "medium": "medium-electric-pole", "big": "big-electric-pole", "substation": "substation"}
    poles = [e for e in circ.ents.values() if e.kind == "pole"]
    if pole_type is None:
        for p in poles:
            wired = any((p.num in (w[0], w[2])) and w[1] <= 4 and w[3] <= 4 for w in circ.wires)
            if not wired and (p.name, ) + tuple(p.pos) not in user_pole_tiles:
                out.append(("stray-pole", f"{p.name}#{p.num}@{p.pos} is emitted without the power-pole option and carries no circuit wire"))
        return out
    pname = names[pole_type]
    grid = [p for p in poles if p.name == pname]
    if not grid:
        out.append(("no-poles", f"no pole of type {pname} in the blueprint"))
        return out
    sa = float(raw(pname).get("supply_area_distance") or 0)
    for e in circ.ents.values():
        if e.kind == "pole" or not consumes_electricity(e.name):
            continue
        x1, y1, x2, y2 = collision_box(e)
        # the entity's tile footprint (Factorio tests the entity's bounding box against the supply area)
        ok = False
        for p in grid:
            if x1 < p.pos[0] + sa and p.pos[0] - sa < x2 and y1 < p.pos[1] + sa and p.pos[1] - sa < y2:
                ok = True
                break
        if not ok:
            out.append(("uncovered", f"{e.name}#{e.num}@{e.pos} lies in no supply area of a {pname} (radius {sa})"))
    # copper connectivity over ALL poles (relays included: they are poles of the electric network too)
    parent = {p.num: p.num for p in poles}

    def find(x):
        while parent[x] != x:
            parent[x] = parent[parent[x]]
            x = parent[x]
        return x

    for (e1, c1, e2, c2) in circ.wires:
        if c1 == 5 and c2 == 5 and e1 in parent and e2 in parent:
            parent[find(e1)] = find(e2)
    comps = {find(p.num) for p in grid}
    if len(comps) > 1:
        out.append(("grid-split", f"the {len(grid)} poles of type {pname} form {len(comps)} separate electric networks"))
    return out
