"""Run a REAL command-line entry point of the compiler in this (sub)process with two run-time wrappers installed:
deterministic CP-SAT (vf.driver) and a capture of the LayoutPlan handed to BlueprintEmitter.emit_from_plan, written
as the planned circuit (vf.plan2bp) to a side file.   usage: python -m vf.cli_run <module|compile|factompile> <plan.json> -- <cli args>"""
import json
import runpy
import sys


def main():
    entry, plan_out = sys.argv[1], sys.argv[2]
    args = sys.argv[4:] if len(sys.argv) > 3 and sys.argv[3] == "--" else sys.argv[3:]
    from vf import driver
    from vf.plan2bp import plan_to_bp

    driver._state["seed"] = 0
    driver._install_wrappers()
    from dsl_compiler.src.emission import emitter as em
    from dsl_compiler.src.emission.entity_emitter import format_entity_description

    orig = em.BlueprintEmitter.emit_from_plan

    def emit_from_plan(self, layout_plan):
        try:
            with open(plan_out, "w") as f:
                json.dump(plan_to_bp(layout_plan, self.signal_type_map, describe=format_entity_description), f)
        except Exception as exc:  # noqa: BLE001
            with open(plan_out, "w") as f:
                json.dump({"error": repr(exc)}, f)
        return orig(self, layout_plan)

    em.BlueprintEmitter.emit_from_plan = emit_from_plan
    if entry == "module":
        sys.argv = ["dsl_compiler"] + args
        runpy.run_module("dsl_compiler", run_name="__main__", alter_sys=True)
    elif entry == "compile":
        from vf import REPO
        sys.argv = [REPO + "/compile.py"] + args
        runpy.run_path(REPO + "/compile.py", run_name="__main__")
    elif entry == "factompile":
        sys.argv = ["factompile"] + args
        from dsl_compiler.cli import main as cli_main

        cli_main()
    else:
        raise SystemExit(f"unknown entry {entry}")


if __name__ == "__main__":
    main()
