"""Run CrossHair (symbolic execution of Python with z3) on the contract functions of harness/kernels_ch.py.
One subprocess per condition under a hard timeout; verdicts:
  confirmed   - 'Confirmed over all paths'
  refuted     - a counterexample (replayed by calling the harness function concretely before it is believed)
  inconclusive- anything else (not confirmed / unable to meet precondition / timeout)"""
from __future__ import annotations

import importlib
import os
import re
import subprocess
import sys
import time

ROOT = os.path.dirname(os.path.dirname(os.path.abspath(__file__)))
HARNESS = os.path.join(ROOT, "harness", "kernels_ch.py")


def _line_of(fn_name):
    with open(HARNESS) as f:
        for i, line in enumerate(f, start=1):
            if line.startswith(f"def {fn_name}("):
                return i + 1
    raise KeyError(fn_name)


def run_one(fn_name, per_condition_timeout=40, wall=90):
    t0 = time.time()
    cmd = [os.path.join(os.path.dirname(sys.executable), "crosshair"), "check", "--report_all", "--per_condition_timeout", str(per_condition_timeout), f"{HARNESS}:{_line_of(fn_name)}"]
    if not os.path.exists(cmd[0]):
        cmd = [sys.executable, "-m", "crosshair", *cmd[1:]]
    env = dict(os.environ)
    from . import REPO

    env["PYTHONPATH"] = REPO + ":" + ROOT + (":" + env["PYTHONPATH"] if env.get("PYTHONPATH") else "")
    try:
        p = subprocess.run(cmd, capture_output=True, text=True, timeout=wall, env=env, cwd=ROOT)
        out = p.stdout + p.stderr
    except subprocess.TimeoutExpired:
        return {"fn": fn_name, "verdict": "inconclusive", "why": "wall timeout", "secs": round(time.time() - t0, 1)}
    secs = round(time.time() - t0, 1)
    if "Confirmed over all paths" in out:
        return {"fn": fn_name, "verdict": "confirmed", "secs": secs}
    m = re.search(r"error: (?:false|False) when calling (\w+)\((.*?)\)(?: \(which returns|$)", out, re.M)
    if m:
        call = f"{m.group(1)}({m.group(2)})"
        sys.path.insert(0, os.path.join(ROOT, "harness"))
        mod = importlib.import_module("kernels_ch")
        try:
            val = eval(call, vars(mod))  # noqa: S307 - replay of CrossHair's own counterexample text
        except Exception as exc:  # noqa: BLE001
            return {"fn": fn_name, "verdict": "inconclusive", "why": f"counterexample did not replay: {exc!r}", "secs": secs}
        if val is False:
            return {"fn": fn_name, "verdict": "refuted", "call": call, "secs": secs}
        return {"fn": fn_name, "verdict": "inconclusive", "why": f"counterexample {call} did not reproduce (returned {val!r})", "secs": secs}
    return {"fn": fn_name, "verdict": "inconclusive", "why": out.strip()[-300:], "secs": secs}


def run_many(names, **kw):
    from concurrent.futures import ThreadPoolExecutor

    with ThreadPoolExecutor(max_workers=min(8, len(names))) as ex:
        return list(ex.map(lambda n: run_one(n, **kw), names))


if __name__ == "__main__":
    for r in run_many(sys.argv[1:]):
        print(r)


def part(names, twins, key_prefix="crosshair"):
    """check part: `names` must be confirmed (a replayed counterexample is a violation), `twins` must be refuted"""

    def run_part(run, cov):
        res = run_many(list(names) + list(twins))
        cov["crosshair"] = res
        for r in res:
            k = f"{key_prefix}:{r['fn']}"
            if r["fn"] in twins:
                if r["verdict"] == "confirmed":
                    run.harness_error(k, f"reachability twin was CONFIRMED (vacuous harness): {r}")
                elif r["verdict"] != "refuted":
                    run.inconc(k, f"reachability twin not decided: {r.get('why')}")
                continue
            run.count({"confirmed": "unsat", "refuted": "sat"}.get(r["verdict"], "unknown"), r["secs"])
            if r["verdict"] == "refuted":
                run.violation(k, f"CrossHair counterexample on the real function, replayed: {r['call']} is False", {"call": r["call"], "kind": "crosshair", "closed": True})
            elif r["verdict"] != "confirmed":
                run.inconc(k, r.get("why", "not confirmed"))

    return run_part
