"""Engine E2: solver queries over the compiler's integer kernels, executed symbolically from their current source
(vf.pyast2smt), plus CrossHair runs on the real functions.  Used by C11 (folds), C05/C10/C16 (small kernels)."""
from __future__ import annotations

import time

import z3

from .dom import IntDom, Z3Dom, arith, wrap32
from . import pyast2smt
from .pyast2smt import NONE, Exec, Untranslatable, evaluate


def bv(n):
    return z3.BitVecVal(n, pyast2smt.W)

INT_MIN, INT_MAX = -(2**31), 2**31 - 1

FACTORIO_OP = {"+": "+", "-": "-", "*": "*", "/": "/", "%": "%", "**": "**", "^": "**", "<<": "<<", ">>": ">>", "AND": "AND", "&": "AND", "OR": "OR", "|": "OR", "XOR": "XOR"}
CMP_OP = {"==": "==", "=": "==", "!=": "!=", "≠": "!=", "<": "<", "<=": "<=", ">": ">", ">=": ">="}

REGIONS = {
    "a>=0,b>=0": lambda a, b: z3.And(a >= 0, b >= 0),
    "a<0,b>=0": lambda a, b: z3.And(a < 0, b >= 0),
    "a>=0,b<0": lambda a, b: z3.And(a >= 0, b < 0),
    "a<0,b<0": lambda a, b: z3.And(a < 0, b < 0),
}


def in32(x):
    return z3.And(x >= bv(INT_MIN), x <= bv(INT_MAX))


def merge(results):
    """[(pc, value)] -> (value expr (W bits), is_none expr)"""
    val = bv(0)
    none = z3.BoolVal(False)
    for pc, v in reversed(results):
        if v is NONE:
            none = z3.If(pc, z3.BoolVal(True), none)
        else:
            if isinstance(v, bool):
                v = bv(1 if v else 0)
            elif isinstance(v, int):
                v = bv(v)
            elif z3.is_bool(v):
                v = z3.If(v, bv(1), bv(0))
            val = z3.If(pc, v, val)
            none = z3.If(pc, z3.BoolVal(False), none)
    return val, none


def factorio_term(zd, op, a, b):
    """run-time value (sign-extended to W bits) of Factorio's combinator for 32-bit operands a, b (W-bit terms in range)"""
    a32, b32 = z3.Extract(31, 0, a), z3.Extract(31, 0, b)
    W = pyast2smt.W
    f = FACTORIO_OP.get(op)
    if f in ("/", "%"):
        # signed division / remainder of int32 operands is width-independent (quotient and remainder are
        # representable in 32 bits except INT_MIN/-1, which is excluded): computed at W bits so that it shares
        # the divider term with the compile-time encoding
        return z3.If(b == 0, bv(0), (a / b) if f == "/" else z3.SRem(a, b))
    if f == "**" and z3.is_bv_value(b):
        # repeated wrapped multiplication = exact power reduced mod 2^32 (ring homomorphism Z -> Z/2^32)
        k = b.as_signed_long()
        acc = bv(1)
        for _ in range(k):
            acc = acc * a
        return z3.SignExt(W - 32, z3.Extract(31, 0, acc))
    if op in CMP_OP:
        r = zd.b2i(zd.cmp(CMP_OP[op], a32, b32))
    elif op == "&&":
        r = zd.b2i(z3.And(a32 != 0, b32 != 0))
    elif op == "||":
        r = zd.b2i(z3.Or(a32 != 0, b32 != 0))
    else:
        r = arith(zd, FACTORIO_OP[op], a32, b32)
    return z3.SignExt(pyast2smt.W - 32, r)


def interpreted(op, a, b):
    """the sub-domain on which the circuit model interprets the operator (DESIGN.md section 3)"""
    f = FACTORIO_OP.get(op)
    if f in ("<<", ">>"):
        return z3.And(b >= 0, b <= 31)
    if f == "**":
        # exponent 0..8; for k >= 2 a result inside int32 needs |a| <= 46341 (46342^2 > 2^31), outside that
        # the folded value is provably out of range (program not accepted) - stated analytic cut
        return z3.And(b >= 0, b <= 8, z3.Or(b <= 1, z3.And(a <= 46341, a >= -46341)))
    if f in ("/", "%"):
        return z3.Not(z3.And(a == bv(INT_MIN), b == bv(-1)))
    return z3.BoolVal(True)


def int_factorio(op, a, b):
    d = IntDom()
    if op in CMP_OP:
        return 1 if d.cmp(CMP_OP[op], a, b) else 0
    if op == "&&":
        return 1 if (a != 0 and b != 0) else 0
    if op == "||":
        return 1 if (a != 0 or b != 0) else 0
    return arith(d, FACTORIO_OP[op], a, b)


def solve(cs, timeout_ms=60_000):
    s = z3.Solver()
    s.set("timeout", timeout_ms)
    for c in cs:
        s.add(c)
    t0 = time.time()
    r = str(s.check())
    return r, (s.model() if r == "sat" else None), time.time() - t0


def width_for(op):
    """bit width that holds every intermediate of the compile-time evaluation of one operator on int32 operands
    (checked by the width obligations, not assumed)"""
    f = FACTORIO_OP.get(op)
    if f in ("*", "<<"):
        return 66
    if f == "**":
        return 136
    return 36


VECTORS = [(0, 0), (1, 2), (-7, 2), (7, -2), (-7, -2), (5, 0), (INT_MAX, 1), (INT_MIN, 1), (65536, 65536), (-1, 31), (1, 31), (3, 4), (-2, 3), (1000, 3), (INT_MIN, INT_MAX), (12345, -678), (-1, 2), (-1, 4), (2, 8), (-3, 5)]


def check_op(run, name, fn, call, op, regions=REGIONS):
    """one operator of one kernel.  For every region:  exists a, b in int32 (interpreted domain):
         fold(op, a, b) is not None, lies in int32 and differs from the run-time value.
       `call(op, a, b)` invokes the REAL function (translator validation and replay).  Returns findings."""
    findings = []
    pyast2smt.W = width_for(op)
    W = pyast2smt.W
    zd = Z3Dom()
    a, b = z3.BitVec("a", W), z3.BitVec("b", W)
    is_pow = FACTORIO_OP.get(op) == "**"
    if is_pow:
        # one region per concrete exponent (the symbolic execution is specialised on it), base symbolic
        plan = [(f"b={k}", {"left": a, "right": bv(k)}, ({"left": (-46341, 46341)} if k >= 2 else {}), b == bv(k), bv(k)) for k in range(0, 9)]
    else:
        plan = [(rn, {"left": a, "right": b}, {}, rf(a, b), b) for rn, rf in regions.items()]
    for (rname, symb, rng, region, bterm) in plan:
        key = f"{name}:{op}:{rname}"
        try:
            ex = Exec(fn, {"op": op}, symb, ranges=rng)
            results = ex.run()
        except Untranslatable as exc:
            run.inconc(key, f"untranslatable: {exc}")
            continue
        val, none = merge(results)
        # translator validation (Serval style): real function vs encoding on fixed vectors of this region
        for (x, y) in VECTORS:
            if is_pow and (y != int(rname[2:]) or (y >= 2 and abs(x) > 46341)):
                continue
            inreg = z3.simplify(z3.substitute(region, (a, bv(x)), (b, bv(y))))
            if not z3.is_true(inreg):
                continue
            try:
                real = call(op, x, y)
            except Exception as exc:  # noqa: BLE001
                real = ("exc", type(exc).__name__)
            try:
                enc = evaluate(results, [(a, bv(x)), (b, bv(y))])
            except Untranslatable:
                enc = ("untaken",)
            if isinstance(real, bool):
                real = int(real)
            if isinstance(enc, bool):
                enc = int(enc)
            if real != enc:
                run.harness_error(key, f"translator validation failed on ({x},{y}): real {real!r} vs encoding {enc!r}")
        ref = factorio_term(zd, op, a, bterm)
        base = [in32(a), in32(b), interpreted(op, a, b), region]
        wrong = z3.And(z3.Not(none), in32(val), val != ref)
        r, m, secs = solve(base + [wrong])
        run.count(r, secs)
        if r == "unknown":
            run.inconc(key, "solver timeout/unknown")
            continue
        if r == "unsat":
            continue
        x, y = m.eval(a, model_completion=True).as_signed_long(), m.eval(b, model_completion=True).as_signed_long()
        try:
            real = call(op, x, y)
        except Exception as exc:  # noqa: BLE001
            run.harness_error(key, f"real function raised on solver model ({x},{y}): {exc!r}")
            continue
        if isinstance(real, bool):
            real = int(real)
        want = int_factorio(op, x, y)
        if real is None or not (INT_MIN <= real <= INT_MAX) or real == want:
            run.harness_error(key, f"solver model ({x},{y}) does not reproduce on the real function: real {real!r}, run-time {want}")
            continue
        findings.append({"key": key, "what": f"{name}('{op}', {x}, {y}) folds to {real} but Factorio computes {want} at run time (region {rname})", "kernel": name, "op": op, "a": x, "b": y, "folded": real, "runtime": want, "kind": "kernel", "closed": True})
    return findings


def check_depth2(run, name, fn, call, pairs):
    """extract_constant_int on depth-2 trees (a op1 b) op2 c: an intermediate that overflows and comes back"""
    findings = []
    stats = {"queries": 0}
    for (op1, op2) in pairs:
        pyast2smt.W = 2 * max(width_for(op1), width_for(op2))
        W = pyast2smt.W
        zd = Z3Dom()
        a, b, c = z3.BitVec("a", W), z3.BitVec("b", W), z3.BitVec("c", W)
        key = f"{name}:({op1}){op2}"
        try:
            e1 = Exec(fn, {"op": op1}, {"left": a, "right": b})
            e1_results = e1.run()
            v1, n1 = merge(e1_results)
            ivs = [e1._iv(v) for (_pc, v) in e1_results if v is not NONE and not isinstance(v, (bool,))]
            lo1, hi1 = min(i[0] for i in ivs), max(i[1] for i in ivs)
            e2 = Exec(fn, {"op": op2}, {"left": v1, "right": c}, ranges={"left": (lo1, hi1)})
            v2, n2 = merge(e2.run())
        except Untranslatable as exc:
            run.inconc(key, f"untranslatable: {exc}")
            continue
        r1 = factorio_term(zd, op1, a, b)
        ref = factorio_term(zd, op2, r1, c)
        base = [in32(a), in32(b), in32(c), interpreted(op1, a, b), interpreted(op2, r1, c)]
        wrong = z3.And(z3.Not(n1), z3.Not(n2), in32(v2), v2 != ref)
        r, m, secs = solve(base + [wrong])
        stats["queries"] += 1
        run.count(r, secs)
        if r == "unknown":
            run.inconc(key, "solver timeout/unknown")
            continue
        if r == "unsat":
            continue
        x, y, z = (m.eval(t, model_completion=True).as_signed_long() for t in (a, b, c))
        try:
            i1 = call(op1, x, y)
            real = call(op2, i1, z) if i1 is not None else None
        except Exception as exc:  # noqa: BLE001
            run.harness_error(key, f"real function raised on ({x},{y},{z}): {exc!r}")
            continue
        want = int_factorio(op2, int_factorio(op1, x, y), z)
        if real is None or not (INT_MIN <= real <= INT_MAX) or real == want:
            run.harness_error(key, f"solver model ({x},{y},{z}) does not reproduce: real {real!r}, run-time {want}")
            continue
        findings.append({"key": key, "what": f"({x} {op1} {y}) {op2} {z} folds to {real} at compile time but Factorio computes {want} (intermediate {i1} is not wrapped to 32 bits)", "kernel": name, "ops": [op1, op2], "args": [x, y, z], "folded": real, "runtime": want, "kind": "kernel-depth2", "closed": True})
    return findings


# ======================================================================================
#  registry of kernels (real functions) and the worker-side task entry
# ======================================================================================


def _kernels():
    from dsl_compiler.src.ir.optimizer import ConstantPropagationOptimizer
    from dsl_compiler.src.lowering.constant_folder import ConstantFolder

    cpo = ConstantPropagationOptimizer()
    return {
        "ConstantFolder.fold_binary_operation": (ConstantFolder.fold_binary_operation, lambda op, a, b: ConstantFolder.fold_binary_operation(op, a, b, None, None),
                                                 ["+", "-", "*", "/", "%", "**", "<<", ">>", "AND", "OR", "XOR", "==", "!=", "<", "<=", ">", ">=", "&&", "||"]),
        "ConstantPropagationOptimizer._fold_arithmetic": (ConstantPropagationOptimizer._fold_arithmetic, lambda op, a, b: cpo._fold_arithmetic(op, a, b),
                                                          ["+", "-", "*", "/", "%", "**", "^", "<<", ">>", "&", "AND", "|", "OR", "XOR"]),
        "ConstantPropagationOptimizer._fold_comparison": (ConstantPropagationOptimizer._fold_comparison, lambda op, a, b: cpo._fold_comparison(op, a, b),
                                                          ["==", "=", "!=", "≠", "<", "<=", ">", ">="]),
    }


DEPTH2_PAIRS = [("*", "/"), ("*", "%"), ("+", "-"), ("+", "/"), ("-", "*"), ("*", ">>"), ("+", "AND"), ("*", "-"), ("-", "%"), ("+", "=="), ("*", "<")]


def kernel_tasks():
    ts = []
    for kname, (_fn, _call, ops) in _kernels().items():
        for op in ops:
            ts.append({"key": f"{kname}:{op}", "kind": "kernel", "kernel": kname, "op": op})
    for pair in DEPTH2_PAIRS:
        ts.append({"key": f"extract_constant_int:({pair[0]}){pair[1]}", "kind": "kernel2", "pair": list(pair)})
    return ts
