"""Worker-side task execution: compile with the real compiler, build the session, decide the queries.

Runs inside the driver's worker processes so that z3 work is spread over the cores.
task = {key, kind, stmts | programs, builds:[{tag, optimize, poles}], params...}
result = {key, compiled:[{tag, ok, error, secs, entities}], findings:[...], rec:{...}}
"""
from __future__ import annotations

import json
import traceback

from . import engine
from .driver import compile_one
from .gen import program_src
from .report import Recorder


def _compile(stmts, build, mode="full", extra=None):
    src = program_src(stmts, mode)
    t = {"key": "x", "src": src, "optimize": build.get("optimize", True), "poles": build.get("poles")}
    if extra:
        t.update(extra)
    r = compile_one(t)
    r["src"] = src
    return r


def do_task(task):
    rec = Recorder()
    out = {"key": task["key"], "compiled": [], "findings": [], "ok_builds": 0}
    try:
        KINDS[task["kind"]](task, rec, out)
    except BaseException as exc:  # noqa: BLE001
        if isinstance(exc, (KeyboardInterrupt, SystemExit)):
            raise
        rec.harness_error(task["key"], f"{type(exc).__name__}: {exc}\n{traceback.format_exc()[-1500:]}")
    out["rec"] = rec.dump()
    return out





def _note_compile(out, tag, r):
    ents = None
    if r.get("ok"):
        try:
            ents = len(json.loads(r["json"])["blueprint"].get("entities", []))
        except Exception:  # noqa: BLE001
            ents = -1
    out["compiled"].append({"tag": tag, "ok": r.get("ok"), "error": (r.get("error") or "")[:300], "secs": r.get("secs"), "entities": ents})
    if r.get("ok"):
        out["ok_builds"] += 1


def task_stateless(task, rec, out):
    """C01/C02/C06/C20-style: every named output and entity condition vs the reference, all inputs."""
    stmts = task["stmts"]
    for build in task["builds"]:
        for mode in task.get("modes", ["full"]):
            tag = f"{build['tag']}/{mode}"
            r = _compile(stmts, build, mode)
            _note_compile(out, tag, r)
            if not r.get("ok"):
                if task.get("must_accept"):
                    out["findings"].append({"key": f"{task['key']}/{tag}:accept", "what": f"program inside the documented domain is not accepted: {(r.get('error') or '')[:160]}", "kind": "not-accepted", "closed": True, "src": r["src"], "build": build})
                continue
            sess = engine.Session(stmts, r["json"])
            fs = [] if task.get("no_ref") else engine.check_stateless(
                sess, rec, f"{task['key']}/{tag}", task, outputs=task.get("outputs"), check_entities=task.get("check_entities", True)
            )
            if task.get("naming"):
                fs += engine.check_naming(sess, rec, f"{task['key']}/{tag}", mode)
            if task.get("places"):
                fs += engine.check_places(sess, rec, f"{task['key']}/{tag}")
            if task.get("fresh"):
                fs += engine.check_fresh(sess, rec, f"{task['key']}/{tag}")
            for f in fs:
                f["src"] = r["src"]
                f["build"] = build
                f["mode"] = mode
            out["findings"] += fs


def task_history(task, rec, out):
    """C03/C05: bounded model checking over symbolic input histories of K steps"""
    stmts = task["stmts"]
    K = task.get("K", 4)
    for build in task["builds"]:
        tag = f"{build['tag']}/full"
        r = _compile(stmts, build, "full")
        _note_compile(out, tag, r)
        if not r.get("ok"):
            continue
        sess = engine.Session(stmts, r["json"])
        fs, S = engine.check_history(sess, rec, f"{task['key']}/{tag}", K, bool_inputs=task.get("bool_inputs", ()), outputs=task.get("outputs"))
        if task.get("places"):
            fs += engine.check_places(sess, rec, f"{task['key']}/{tag}")
        out.setdefault("hold_ticks", []).append(S)
        for f in fs:
            f["src"] = r["src"]
            f["build"] = build
        out["findings"] += fs


def task_loop(task, rec, out):
    """C04: value(t+L) = f(value(t)) for some L, all held inputs, all ticks from power-on (bounded)"""
    stmts = task["stmts"]
    for build in task["builds"]:
        tag = f"{build['tag']}/full"
        r = _compile(stmts, build, "full")
        _note_compile(out, tag, r)
        if not r.get("ok"):
            continue
        sess = engine.Session(stmts, r["json"])
        fs = engine.check_loop(sess, rec, f"{task['key']}/{tag}", readers=task.get("readers", ()), rounds=task.get("rounds", 3), warmup=task.get("warmup", 0))
        for f in fs:
            f["src"] = r["src"]
            f["build"] = build
        out["findings"] += fs


def task_equiv(task, rec, out):
    """twins: pairs of (program, build) compiled by the real compiler, compared for all inputs / K-step histories.
    task['pairs'] = [{'a': {'stmts','build','files'?}, 'b': {...}, 'names': None|[...], 'tag': str}]"""
    cache = {}

    def get(side):
        ck = json.dumps([side["stmts"], side["build"], side.get("extra")], sort_keys=True, default=str)
        if ck not in cache:
            r = _compile(side["stmts"], side["build"], "full", side.get("extra"))
            _note_compile(out, side["build"].get("tag", "?") + ":" + side.get("label", ""), r)
            cache[ck] = r
        return cache[ck]

    for pair in task["pairs"]:
        ra, rb = get(pair["a"]), get(pair["b"])
        tag = pair.get("tag", "pair")
        if not ra.get("ok") or not rb.get("ok"):
            if ra.get("ok") != rb.get("ok") and task.get("acceptance_must_agree", True):
                out["findings"].append({"key": f"{task['key']}/{tag}:accept", "what": f"twins are not both accepted: A ok={ra.get('ok')} ({(ra.get('error') or '')[:120]}), B ok={rb.get('ok')} ({(rb.get('error') or '')[:120]})", "kind": "twin-accept", "closed": True, "src": ra["src"], "src_b": rb["src"]})
            continue
        sa = engine.Session(pair["a"]["stmts"], ra["json"])
        sb = engine.Session(pair["b"]["stmts"], rb["json"])
        fs = engine.check_equiv(sa, sb, rec, f"{task['key']}/{tag}", names=pair.get("names"), K=task.get("K"), bool_inputs=task.get("bool_inputs", ()))
        for f in fs:
            f["src"] = ra["src"]
            f["src_b"] = rb["src"]
            f["build"] = pair["a"]["build"]
            f["build_b"] = pair["b"]["build"]
        out["findings"] += fs


def task_fresh(task, rec, out):
    """C13: closed clause on the allocated signals + equivalence with the explicitly renamed twin"""
    t1 = dict(task, fresh=True, check_entities=False, outputs=[], no_ref=bool(task.get("K")))
    task_stateless(t1, rec, out)
    task_equiv(task, rec, out)


def task_import(task, rec, out):
    """C17: generated import graphs written to a scratch directory; the importing program, compiled from
    several working directories, is compared with the generator's pasted twin (reference interpreter)."""
    import os
    import shutil
    import tempfile

    from .driver import compile_one

    root = tempfile.mkdtemp(prefix="verif-c17-")
    try:
        proj = os.path.join(root, "proj")
        decoy = os.path.join(root, "decoycwd")
        os.makedirs(proj)
        os.makedirs(decoy)
        for rel, stmts in task["files"].items():
            path = os.path.join(proj, rel)
            os.makedirs(os.path.dirname(path), exist_ok=True)
            with open(path, "w") as f:
                f.write(program_src(stmts))
        for rel, stmts in (task.get("decoys") or {}).items():
            path = os.path.join(decoy, rel)
            os.makedirs(os.path.dirname(path), exist_ok=True)
            with open(path, "w") as f:
                f.write(program_src(stmts))
        main_path = os.path.join(proj, "main.facto")
        main_src = program_src(task["main"])
        with open(main_path, "w") as f:
            f.write(main_src)
        for build in task["builds"]:
            for cwd_tag, cwd in (("cwd=proj", proj), ("cwd=root", "/"), ("cwd=decoy", decoy)):
                tag = f"{build['tag']}/{cwd_tag}"
                r = compile_one({"key": "x", "src": main_src, "source_name": main_path, "cwd": cwd, "optimize": build.get("optimize", True)})
                r["src"] = main_src
                _note_compile(out, tag, r)
                if not r.get("ok"):
                    out["findings"].append({"key": f"{task['key']}/{tag}:accept", "what": f"importing program not accepted from {cwd_tag}: {(r.get('error') or '')[:200]}", "kind": "import-accept", "closed": True, "src": main_src})
                    continue
                sess = engine.Session(task["stmts"], r["json"])
                fs = engine.check_stateless(sess, rec, f"{task['key']}/{tag}", task)
                for f in fs:
                    f["src"] = main_src
                    f["files"] = {k: program_src(v) for k, v in task["files"].items()}
                    f["build"] = build
                out["findings"] += fs
    finally:
        shutil.rmtree(root, ignore_errors=True)


def task_kernel(task, rec, out):
    """E2: one operator of one fold kernel, symbolically executed from the current source"""
    from . import kernels

    fn, call, _ops = kernels._kernels()[task["kernel"]]
    out["findings"] += kernels.check_op(rec, task["kernel"], fn, call, task["op"])
    out["ok_builds"] = 1


def task_kernel2(task, rec, out):
    from . import kernels

    fn, call, _ops = kernels._kernels()["ConstantFolder.fold_binary_operation"]
    out["findings"] += kernels.check_depth2(rec, "ConstantFolder.extract_constant_int", fn, call, [tuple(task["pair"])])
    out["ok_builds"] = 1


def task_cli(task, rec, out):
    from . import c07

    c07.task_cli(task, rec, out)


KINDS = {"cli": task_cli, "kernel": task_kernel, "kernel2": task_kernel2, "import": task_import, "fresh": task_fresh, "stateless": task_stateless, "history": task_history, "loop": task_loop, "equiv": task_equiv}


# ======================================================================================
#  E3: layout outcomes (C08, C09, C18)
# ======================================================================================


def _overlap_query(rec, key, cap):
    """for EVERY model of the captured CP-SAT proto: no two entities' collision boxes (game data) intersect"""
    import z3

    from . import geom
    from .cpsat2smt import Model

    pd, ents = cap["proto"], cap.get("entities") or {}
    m = Model(pd, use=("domain", "interval", "no_overlap_2d"))
    if m.unknown_kinds:
        rec.inconc(key, f"constraint kinds not translated: {sorted(m.unknown_kinds)}")
    S = 200  # fixed-point scale for half tiles and collision boxes
    boxes = []
    for eid, info in ents.items():
        x, y = m.byname.get(f"x_{eid}"), m.byname.get(f"y_{eid}")
        if x is None or y is None:
            continue
        w, h = info["footprint"]
        cb = geom.raw(info["type"]).get("collision_box") or [[-0.4, -0.4], [0.4, 0.4]]
        hx, hy = (cb[1][0] - cb[0][0]) / 2, (cb[1][1] - cb[0][1]) / 2
        if (w > h) != (hx > hy) and w != h:
            hx, hy = hy, hx  # orientation taken from the footprint the engine reserves
        boxes.append((eid, x * S + int(w * S / 2), y * S + int(h * S / 2), int(round(hx * S)), int(round(hy * S))))
    pairs = []
    for i in range(len(boxes)):
        for j in range(i + 1, len(boxes)):
            a, b = boxes[i], boxes[j]
            dx, dy = a[1] - b[1], a[2] - b[2]
            pairs.append(z3.And(dx < a[3] + b[3], -dx < a[3] + b[3], dy < a[4] + b[4], -dy < a[4] + b[4]))
    if not pairs:
        return []
    r, model, secs = m.solve([z3.Or(*pairs)])
    rec.count(r, secs)
    if r == "unknown":
        rec.inconc(key, "solver timeout/unknown")
        return []
    if r == "unsat":
        return []
    place = {eid: (model.eval(m.byname[f"x_{eid}"]).as_long(), model.eval(m.byname[f"y_{eid}"]).as_long()) for eid in ents if f"x_{eid}" in m.byname}
    return [{"key": key, "what": f"the layout model (strategy {cap.get('strategy')}) admits a placement in which two collision boxes intersect, e.g. {dict(list(place.items())[:6])}", "kind": "layout-overlap", "closed": True, "placement": place}]


def _fixed_query(key, cap, ref_places):
    """user-placed entities are singleton-domain variables at exactly the program's tiles (multiset)"""
    import collections

    ents = cap.get("entities") or {}
    names = {v["name"]: v["domain"] for v in cap["proto"]["variables"]}
    got = collections.Counter()
    bad = []
    for eid, info in ents.items():
        if not info.get("user"):
            continue
        dx, dy = names.get(f"x_{eid}"), names.get(f"y_{eid}")
        if dx is None or dy is None or dx[0] != dx[-1] or dy[0] != dy[-1] or len(dx) != 2 or len(dy) != 2:
            bad.append(f"user entity {eid} is not fixed in the layout model (domains {dx}, {dy})")
            continue
        got[(info["type"], dx[0], dy[0])] += 1
    want = collections.Counter((p, x, y) for (p, x, y, _pr) in ref_places)
    if want != got:
        bad.append(f"user entities fixed in the layout model {sorted((got - want).elements())[:4]} vs program {sorted((want - got).elements())[:4]}")
    return [{"key": key, "what": b, "kind": "layout-fixed", "closed": True} for b in bad]


def task_layout(task, rec, out):
    from . import geom
    from .bp import Circuit

    stmts = task["stmts"]
    for build in task["builds"]:
        for stub_k in task.get("unknown_first", [0]):
            tag = f"{build['tag']}/unknown{stub_k}"
            extra = {"capture": stub_k == 0, "stub": {"unknown_first": stub_k} if stub_k else None}
            r = _compile(stmts, build, "full", extra)
            _note_compile(out, tag, r)
            if not r.get("ok"):
                continue
            key = f"{task['key']}/{tag}"
            sess = engine.Session(stmts, r["json"])
            fs = []
            for (kind, text) in geom.paste_problems(sess.circ)[:8]:
                fs.append({"key": f"{key}:{kind}", "what": text, "kind": kind, "closed": True})
            if task.get("power"):
                for (kind, text) in geom.power_problems(sess.circ, build.get("poles"))[:8]:
                    fs.append({"key": f"{key}:{kind}", "what": text, "kind": kind, "closed": True})
            fs += engine.check_places(sess, rec, key)
            fs += engine.check_props(sess, rec, key)
            if not task.get("ref_check", True):
                pass
            elif task.get("K"):
                f2, _S = engine.check_history(sess, rec, key, task["K"])
                fs += f2
            else:
                fs += engine.check_stateless(sess, rec, key, task)
            if stub_k == 0 and task.get("e3", True):
                _zev, zref = sess.z3_pair()
                try:
                    ref_places = zref(None, {"__default0__": True}).places
                except Exception:  # noqa: BLE001
                    ref_places = None
                for ci, cap in enumerate(r.get("protos") or []):
                    fs += _overlap_query(rec, f"{key}:proto{ci}:overlap", cap)
                    if ref_places is not None:
                        fs += _fixed_query(f"{key}:proto{ci}:fixed", cap, ref_places)
            if stub_k == 0 and task.get("adversarial") and r.get("protos"):
                fs += _adversarial(task, rec, out, build, key, r["protos"][0], stmts)
            for f in fs:
                f["src"] = r["src"]
                f["build"] = build
                f.setdefault("stub", {"unknown_first": stub_k})
            out["findings"] += fs


def _adversarial(task, rec, out, build, key, cap, stmts):
    """z3 chooses, among the models of the captured proto's placement constraints, a placement that puts two
    directly wired compiler entities (memory/latch internals) more than 9 tiles apart; the candidate is pinned
    into the REAL CP-SAT model (which must accept it: FEASIBLE/OPTIMAL) and the real post-solve stages run."""
    import z3

    from . import geom
    from .cpsat2smt import Model

    ents = cap.get("entities") or {}
    internal = [e for e, i in ents.items() if (i.get("role") or "").startswith(("memory_", "latch", "signal_remap", "multiplier")) or e.startswith("mem_")]
    conns = [c for c in cap.get("connections", []) if c[0] in internal and c[1] in internal and c[0] != c[1]]
    fs = []
    for (e1, e2) in conns[:3]:
        m = Model(cap["proto"], use=("domain", "interval", "no_overlap_2d"))
        x1, y1, x2, y2 = (m.byname.get(n) for n in (f"x_{e1}", f"y_{e1}", f"x_{e2}", f"y_{e2}"))
        if None in (x1, y1, x2, y2):
            continue
        box = [v <= 40 for v in (x1, y1, x2, y2)]
        r, model, secs = m.solve(box + [(x1 - x2) * (x1 - x2) + (y1 - y2) * (y1 - y2) > 100])
        rec.count(r, secs)
        if r != "sat":
            continue
        pin = {f"x_{e1}": model.eval(x1).as_long(), f"y_{e1}": model.eval(y1).as_long(), f"x_{e2}": model.eval(x2).as_long(), f"y_{e2}": model.eval(y2).as_long()}
        tag = f"{build['tag']}/pin:{e1}~{e2}"
        r2 = _compile(stmts, build, "full", {"stub": {"pin": pin, "pin_all": True}})
        _note_compile(out, tag, r2)
        if not r2.get("ok"):
            continue  # the real solver (or a later stage) rejected the candidate outcome: no verdict
        sess = engine.Session(stmts, r2["json"])
        k2 = f"{task['key']}/{tag}"
        for (kind, text) in geom.paste_problems(sess.circ)[:4]:
            fs.append({"key": f"{k2}:{kind}", "what": text + f"  [outcome: {pin}, accepted by the real CP-SAT]", "kind": kind, "closed": True, "stub": {"pin": pin}})
        if task.get("K"):
            f2, _S = engine.check_history(sess, rec, k2, task["K"])
            for f in f2:
                f["stub"] = {"pin": pin}
            fs += f2
    return fs


KINDS["layout"] = task_layout
