"""Worker-side task execution: compile with the real compiler, build the session, decide the queries.

Runs inside the driver's worker processes so that z3 work is spread over the cores.
task = {key, kind, stmts | programs, builds:[{tag, optimize, poles}], params...}
result = {key, compiled:[{tag, ok, error, secs, entities}], findings:[...], rec:{...}}
"""
from __future__ import annotations

import json
import traceback

from . import engine
from .driver import compile_one
from .gen import program_src
from .report import Recorder


def _compile(stmts, build, mode="full", extra=None):
    src = program_src(stmts, mode)
    t = {"key": "x", "src": src, "optimize": build.get("optimize", True), "poles": build.get("poles")}
    if extra:
        t.update(extra)
    r = compile_one(t)
    r["src"] = src
    return r


def do_task(task):
    rec = Recorder()
    out = {"key": task["key"], "compiled": [], "findings": [], "ok_builds": 0}
    try:
        KINDS[task["kind"]](task, rec, out)
    except BaseException as exc:  # noqa: BLE001
        if isinstance(exc, (KeyboardInterrupt, SystemExit)):
            raise
        rec.harness_error(task["key"], f"{type(exc).__name__}: {exc}\n{traceback.format_exc()[-1500:]}")
    out["rec"] = rec.dump()
    return out


def _note_compile(out, tag, r):
    ents = None
    if r.get("ok"):
        try:
            ents = len(json.loads(r["json"])["blueprint"].get("entities", []))
        except Exception:  # noqa: BLE001
            ents = -1
    out["compiled"].append({"tag": tag, "ok": r.get("ok"), "error": (r.get("error") or "")[:300], "secs": r.get("secs"), "entities": ents})
    if r.get("ok"):
        out["ok_builds"] += 1


def task_stateless(task, rec, out):
    """C01/C02/C06/C20-style: every named output and entity condition vs the reference, all inputs."""
    stmts = task["stmts"]
    for build in task["builds"]:
        for mode in task.get("modes", ["full"]):
            tag = f"{build['tag']}/{mode}"
            r = _compile(stmts, build, mode)
            _note_compile(out, tag, r)
            if not r.get("ok"):
                if task.get("must_accept"):
                    out["findings"].append({"key": f"{task['key']}/{tag}:accept", "what": f"program inside the documented domain is not accepted: {(r.get('error') or '')[:160]}", "kind": "not-accepted", "closed": True, "src": r["src"], "build": build})
                continue
            sess = engine.Session(stmts, r["json"])
            fs = engine.check_stateless(
                sess, rec, f"{task['key']}/{tag}", task, outputs=task.get("outputs"), check_entities=task.get("check_entities", True)
            )
            if task.get("naming"):
                fs += engine.check_naming(sess, rec, f"{task['key']}/{tag}", mode)
            if task.get("places"):
                fs += engine.check_places(sess, rec, f"{task['key']}/{tag}")
            if task.get("fresh"):
                fs += engine.check_fresh(sess, rec, f"{task['key']}/{tag}")
            for f in fs:
                f["src"] = r["src"]
                f["build"] = build
                f["mode"] = mode
            out["findings"] += fs


def task_history(task, rec, out):
    """C03/C05: bounded model checking over symbolic input histories of K steps"""
    stmts = task["stmts"]
    K = task.get("K", 4)
    for build in task["builds"]:
        tag = f"{build['tag']}/full"
        r = _compile(stmts, build, "full")
        _note_compile(out, tag, r)
        if not r.get("ok"):
            continue
        sess = engine.Session(stmts, r["json"])
        fs, S = engine.check_history(sess, rec, f"{task['key']}/{tag}", K, bool_inputs=task.get("bool_inputs", ()), outputs=task.get("outputs"))
        if task.get("places"):
            fs += engine.check_places(sess, rec, f"{task['key']}/{tag}")
        out.setdefault("hold_ticks", []).append(S)
        for f in fs:
            f["src"] = r["src"]
            f["build"] = build
        out["findings"] += fs


def task_loop(task, rec, out):
    """C04: value(t+L) = f(value(t)) for some L, all held inputs, all ticks from power-on (bounded)"""
    stmts = task["stmts"]
    for build in task["builds"]:
        tag = f"{build['tag']}/full"
        r = _compile(stmts, build, "full")
        _note_compile(out, tag, r)
        if not r.get("ok"):
            continue
        sess = engine.Session(stmts, r["json"])
        fs = engine.check_loop(sess, rec, f"{task['key']}/{tag}", readers=task.get("readers", ()), rounds=task.get("rounds", 3))
        for f in fs:
            f["src"] = r["src"]
            f["build"] = build
        out["findings"] += fs


def task_equiv(task, rec, out):
    """twins: pairs of (program, build) compiled by the real compiler, compared for all inputs / K-step histories.
    task['pairs'] = [{'a': {'stmts','build','files'?}, 'b': {...}, 'names': None|[...], 'tag': str}]"""
    cache = {}

    def get(side):
        ck = json.dumps([side["stmts"], side["build"], side.get("extra")], sort_keys=True, default=str)
        if ck not in cache:
            r = _compile(side["stmts"], side["build"], "full", side.get("extra"))
            _note_compile(out, side["build"].get("tag", "?") + ":" + side.get("label", ""), r)
            cache[ck] = r
        return cache[ck]

    for pair in task["pairs"]:
        ra, rb = get(pair["a"]), get(pair["b"])
        tag = pair.get("tag", "pair")
        if not ra.get("ok") or not rb.get("ok"):
            if ra.get("ok") != rb.get("ok") and task.get("acceptance_must_agree", True):
                out["findings"].append({"key": f"{task['key']}/{tag}:accept", "what": f"twins are not both accepted: A ok={ra.get('ok')} ({(ra.get('error') or '')[:120]}), B ok={rb.get('ok')} ({(rb.get('error') or '')[:120]})", "kind": "twin-accept", "closed": True, "src": ra["src"], "src_b": rb["src"]})
            continue
        sa = engine.Session(pair["a"]["stmts"], ra["json"])
        sb = engine.Session(pair["b"]["stmts"], rb["json"])
        fs = engine.check_equiv(sa, sb, rec, f"{task['key']}/{tag}", names=pair.get("names"), K=task.get("K"), bool_inputs=task.get("bool_inputs", ()))
        for f in fs:
            f["src"] = ra["src"]
            f["src_b"] = rb["src"]
            f["build"] = pair["a"]["build"]
            f["build_b"] = pair["b"]["build"]
        out["findings"] += fs


def task_fresh(task, rec, out):
    """C13: closed clause on the allocated signals + equivalence with the explicitly renamed twin"""
    t1 = dict(task, fresh=True, check_entities=False, outputs=[])
    task_stateless(t1, rec, out)
    task_equiv(task, rec, out)


def task_import(task, rec, out):
    """C17: generated import graphs written to a scratch directory; the importing program, compiled from
    several working directories, is compared with the generator's pasted twin (reference interpreter)."""
    import os
    import shutil
    import tempfile

    from .driver import compile_one

    root = tempfile.mkdtemp(prefix="verif-c17-")
    try:
        proj = os.path.join(root, "proj")
        decoy = os.path.join(root, "decoycwd")
        os.makedirs(proj)
        os.makedirs(decoy)
        for rel, stmts in task["files"].items():
            path = os.path.join(proj, rel)
            os.makedirs(os.path.dirname(path), exist_ok=True)
            with open(path, "w") as f:
                f.write(program_src(stmts))
        for rel, stmts in (task.get("decoys") or {}).items():
            path = os.path.join(decoy, rel)
            os.makedirs(os.path.dirname(path), exist_ok=True)
            with open(path, "w") as f:
                f.write(program_src(stmts))
        main_path = os.path.join(proj, "main.facto")
        main_src = program_src(task["main"])
        with open(main_path, "w") as f:
            f.write(main_src)
        for build in task["builds"]:
            for cwd_tag, cwd in (("cwd=proj", proj), ("cwd=root", "/"), ("cwd=decoy", decoy)):
                tag = f"{build['tag']}/{cwd_tag}"
                r = compile_one({"key": "x", "src": main_src, "source_name": main_path, "cwd": cwd, "optimize": build.get("optimize", True)})
                r["src"] = main_src
                _note_compile(out, tag, r)
                if not r.get("ok"):
                    out["findings"].append({"key": f"{task['key']}/{tag}:accept", "what": f"importing program not accepted from {cwd_tag}: {(r.get('error') or '')[:200]}", "kind": "import-accept", "closed": True, "src": main_src})
                    continue
                sess = engine.Session(task["stmts"], r["json"])
                fs = engine.check_stateless(sess, rec, f"{task['key']}/{tag}", task)
                for f in fs:
                    f["src"] = main_src
                    f["files"] = {k: program_src(v) for k, v in task["files"].items()}
                    f["build"] = build
                out["findings"] += fs
    finally:
        shutil.rmtree(root, ignore_errors=True)


def task_kernel(task, rec, out):
    """E2: one operator of one fold kernel, symbolically executed from the current source"""
    from . import kernels

    fn, call, _ops = kernels._kernels()[task["kernel"]]
    out["findings"] += kernels.check_op(rec, task["kernel"], fn, call, task["op"])
    out["ok_builds"] = 1


def task_kernel2(task, rec, out):
    from . import kernels

    fn, call, _ops = kernels._kernels()["ConstantFolder.fold_binary_operation"]
    out["findings"] += kernels.check_depth2(rec, "ConstantFolder.extract_constant_int", fn, call, [tuple(task["pair"])])
    out["ok_builds"] = 1


KINDS = {"kernel": task_kernel, "kernel2": task_kernel2, "import": task_import, "fresh": task_fresh, "stateless": task_stateless, "history": task_history, "loop": task_loop, "equiv": task_equiv}
