"""Run bookkeeping: known findings, VIOLATION / KNOWN-FINDING lines, replay files, evidence, exit codes.

exit 0 = property held on everything explored (KNOWN-FINDING lines allowed)
exit 1 = at least one replayed violation that known_findings.json does not list
exit 2 = harness error (encoding/model disagreement, vacuous query, ...) - never a verdict
"""
from __future__ import annotations

import json
import os
import sys
import time
import traceback

ROOT = os.path.dirname(os.path.dirname(os.path.abspath(__file__)))
KNOWN_PATH = os.path.join(ROOT, "known_findings.json")


def tier():
    t = os.environ.get("VERIF_TIER", "quick")
    return t if t in ("quick", "thorough") else "quick"


def seed():
    try:
        return int(os.environ.get("VERIF_SEED", "0"))
    except ValueError:
        return 0


class HarnessError(Exception):
    pass


class Recorder:
    """light-weight result collector used inside worker processes; merged into a Run"""

    def __init__(self):
        self.queries = {"unsat": 0, "sat": 0, "unknown": 0}
        self.solver_s = 0.0
        self.inconclusive = []
        self.harness_errors = []

    def count(self, verdict, secs=0.0):
        self.queries[verdict] = self.queries.get(verdict, 0) + 1
        self.solver_s += secs

    def inconc(self, key, why):
        self.inconclusive.append({"key": key, "why": str(why)[:300]})

    def harness_error(self, key, why):
        self.harness_errors.append({"key": key, "why": str(why)[:2000]})

    def dump(self):
        return {"queries": self.queries, "solver_s": self.solver_s, "inconclusive": self.inconclusive, "harness_errors": self.harness_errors}


class Run:
    def merge(self, dumped):
        for k, v in dumped["queries"].items():
            self.queries[k] = self.queries.get(k, 0) + v
        self.solver_s += dumped["solver_s"]
        self.inconclusive += dumped["inconclusive"]
        for h in dumped["harness_errors"]:
            self.harness_error(h["key"], h["why"])

    def __init__(self, prop, level, tier_=None):
        self.prop = prop
        self.level = level
        self.tier = tier_ or tier()
        self.seed = seed()
        self.t0 = time.time()
        with open(KNOWN_PATH) as f:
            kf = json.load(f)
        self.known = {e["key"]: e for e in kf.get("findings", []) if e.get("property") == prop}
        # a few layout-dependent baseline defects are identified by their signature (which entity kinds / which
        # distances), because WHICH wire or consumer exhibits them depends on the placement the solver returns
        self.signatures = [e for e in kf.get("signatures", []) if e.get("property") == prop]
        self.sig_hit = {}
        self.known_hit = {}
        self.new = []
        self.inconclusive = []
        self.harness_errors = []
        self.solver_s = 0.0
        self.queries = {"unsat": 0, "sat": 0, "unknown": 0}
        self.samples = []
        self.notes = []
        # maintainer runs against scratch worktrees write evidence/replays elsewhere (never the registered checks)
        self.out_root = os.environ.get("VERIF_EVIDENCE_DIR") or ROOT
        os.makedirs(os.path.join(self.out_root, "replays", prop), exist_ok=True)
        os.makedirs(os.path.join(self.out_root, "evidence"), exist_ok=True)

    # ---------------------------------------------------------------- results
    def count(self, verdict, secs=0.0):
        self.queries[verdict] = self.queries.get(verdict, 0) + 1
        self.solver_s += secs

    def violation(self, key, what, replay):
        """a REPLAYED violation.  Listed in known_findings.json -> KNOWN-FINDING, else VIOLATION."""
        if key in self.known:
            if key not in self.known_hit:
                self.known_hit[key] = what
                print(f"KNOWN-FINDING: property={self.prop} {self.known[key].get('what', what)} [{key}]")
            return False
        import re as _re

        for sg in self.signatures:
            if _re.search(sg["regex"], what) and (not sg.get("key_regex") or _re.search(sg["key_regex"], key)):
                if sg["id"] not in self.sig_hit:
                    self.sig_hit[sg["id"]] = key
                    print(f"KNOWN-FINDING: property={self.prop} {sg['what']} [signature {sg['id']}, e.g. {key}]")
                return False
        safe = key.replace("/", "_").replace(":", "_").replace(" ", "_")[:150]
        path = os.path.join(self.out_root, "replays", self.prop, safe + ".json")
        replay = dict(replay)
        replay.update({"property": self.prop, "key": key, "what": what})
        with open(path, "w") as f:
            json.dump(replay, f, indent=1, default=str)
        self.new.append({"key": key, "what": what, "replay": path})
        print(f"VIOLATION property={self.prop} replay={path}")
        print(f"  {what} [{key}]")
        sys.stdout.flush()
        return True

    def inconc(self, key, why):
        self.inconclusive.append({"key": key, "why": str(why)[:300]})

    def harness_error(self, key, why):
        self.harness_errors.append({"key": key, "why": str(why)[:2000]})
        print(f"HARNESS-ERROR property={self.prop} {key}: {str(why)[:500]}", file=sys.stderr)

    def sample(self, s, limit=6):
        if len(self.samples) < limit:
            self.samples.append(s)

    # ---------------------------------------------------------------- end
    def finish(self, coverage, assumptions):
        cov = dict(coverage)
        cov.setdefault("samples", self.samples or [{"note": "no sample recorded"}])
        cov["queries"] = dict(self.queries)
        cov["solver_seconds"] = round(self.solver_s, 2)
        cov["known_findings_reproduced"] = sorted(self.known_hit) + [f"signature:{k}" for k in sorted(self.sig_hit)]
        cov["known_findings_not_reproduced"] = sorted(set(self.known) - set(self.known_hit))
        cov["inconclusive"] = self.inconclusive[:40]
        cov["inconclusive_count"] = len(self.inconclusive)
        cov["new_violations"] = self.new[:40]
        cov["harness_errors"] = self.harness_errors[:20]
        if self.notes:
            cov["notes"] = self.notes
        ev = {
            "property_id": self.prop,
            "tier": self.tier,
            "seed": self.seed,
            "level": self.level,
            "coverage": cov,
            "assumptions": list(assumptions),
            "wall_s": round(time.time() - self.t0, 2),
            "violations": len(self.new),
        }
        path = os.path.join(self.out_root, "evidence", f"{self.prop}.json")
        with open(path, "w") as f:
            json.dump(ev, f, indent=1, default=str)
        code = 0
        if self.new:
            code = 1
        elif self.harness_errors:
            code = 2
        print(
            f"{self.prop} {self.tier}: queries={self.queries} known={len(self.known_hit)} new={len(self.new)} "
            f"inconclusive={len(self.inconclusive)} harness_errors={len(self.harness_errors)} "
            f"wall={ev['wall_s']}s solver={cov['solver_seconds']}s -> exit {code}"
        )
        return code


def main_wrapper(fn):
    try:
        code = fn()
    except SystemExit:
        raise
    except BaseException:
        traceback.print_exc()
        code = 2
    sys.stdout.flush()
    os._exit(code)
