"""Replay a violation:  python -m vf.replay /verif/replays/<prop>/<case>.json
Re-compiles the stored program with the real compiler (current /repo tree), re-decides the stored case and
prints the findings for it (program text, inputs/history, expected vs observed)."""
from __future__ import annotations

import json
import sys


def main():
    path = sys.argv[1]
    rp = json.load(open(path))
    print("property:", rp.get("property"), "key:", rp.get("key"))
    print("what:", rp.get("what"))
    if rp.get("src"):
        print("--- program ---")
        print(rp["src"])
    task = rp.get("task")
    if not task:
        print("(no task stored: closed-form finding, see fields above)")
        return 0
    from . import driver, work

    driver._worker_init(0)
    out = work.do_task(task)
    hits = [f for f in out["findings"] if f["key"] == rp.get("key")]
    for f in out["findings"]:
        print(("REPRODUCED " if f["key"] == rp.get("key") else "other      ") + f["key"] + " :: " + f["what"])
    if out["rec"]["harness_errors"]:
        print("harness errors:", out["rec"]["harness_errors"])
    return 1 if hits else 0


if __name__ == "__main__":
    sys.exit(main())
