"""pyast2smt: symbolic execution of small integer kernels of the compiler from their CURRENT source.

The function's source is re-read with inspect/ast at every run, specialised on concrete string arguments
(`op == "+"` tests are decided), and the remaining straight-line integer code is executed symbolically:
every path condition becomes an ite, Python `int` values are W-bit bit-vectors (W = 128) together with an
explicit no-overflow obligation collected in `self.overflow` (so the width is PROVEN sufficient for the
operand ranges of the query, not assumed).  Unsupported syntax raises Untranslatable -> the query is
reported inconclusive, never passed.

Supported: if/elif/else, return, try (body only; OverflowError/ValueError handlers are unreachable for
bit-vector-exact arithmetic under the no-overflow obligation), assignments to locals, BinOp + - * // % ** << >> & | ^,
unary -, comparisons (chains), and/or/not, `X if c else Y`, abs(), int(), isinstance(x, (int, float)) -> True,
dict literal .get(k, default) with string keys, diagnostics.warning(...) calls (no effect), None.
"""
from __future__ import annotations

import ast
import inspect
import textwrap

import z3

W = 128


class Untranslatable(Exception):
    pass


class NoneVal:
    """Python None as a symbolic-execution value"""

    def __repr__(self):
        return "None"


NONE = NoneVal()


class Sym:
    """result of symbolic execution: list of (path condition, value) with value in {bitvec, bool, str, tuple, NONE}"""


def bv(n):
    return z3.BitVecVal(n, W)


def py_floordiv(a, b):
    q = a / b  # bvsdiv: truncation
    r = z3.SRem(a, b)
    adj = z3.And(r != 0, (r < 0) != (b < 0))
    return z3.If(adj, q - 1, q)


def py_mod(a, b):
    r = z3.SRem(a, b)
    adj = z3.And(r != 0, (r < 0) != (b < 0))
    return z3.If(adj, r + b, r)


class Exec:
    def __init__(self, fn, concrete, symbolic, pow_max=8, ranges=None):
        """fn: real function object; concrete: {param: python value}; symbolic: {param: z3 bitvec (width W)}"""
        src = textwrap.dedent(inspect.getsource(fn))
        tree = ast.parse(src)
        self.fdef = tree.body[0]
        if not isinstance(self.fdef, ast.FunctionDef):
            raise Untranslatable("not a function")
        self.concrete = dict(concrete)
        self.symbolic = dict(symbolic)
        self.overflow = []  # (kept for compatibility: always empty, width is discharged by interval analysis)
        self.pow_max = pow_max
        self.src = src
        self.ranges = dict(ranges or {})  # z3 term id -> (lo, hi): sound interval of every symbolic integer
        self.iv = {}
        for name, term in self.symbolic.items():
            lo, hi = self.ranges.get(name, (-(2**31), 2**31 - 1))
            self.iv[term.get_id()] = (lo, hi)

    # ------------------------------------------------------------------ driver
    def run(self):
        """returns list of (condition, value) covering all paths (conditions are mutually exclusive)"""
        env = {}
        for a in self.fdef.args.args:
            n = a.arg
            if n in self.concrete:
                env[n] = self.concrete[n]
            elif n in self.symbolic:
                env[n] = self.symbolic[n]
            elif n in ("self", "cls"):
                env[n] = object()
            else:
                env[n] = NONE  # e.g. node / diagnostics
        results = []
        self._block(self.fdef.body, env, z3.BoolVal(True), results)
        return results

    def _block(self, stmts, env, pc, results):
        """executes statements; appends (pc, value) for returns; returns the pc of falling through (or None)"""
        for i, st in enumerate(stmts):
            if isinstance(st, ast.Expr):
                if isinstance(st.value, ast.Constant):
                    continue  # docstring
                if isinstance(st.value, ast.Call):
                    continue  # diagnostics.warning(...) etc.: no effect on the returned value
                raise Untranslatable(ast.dump(st)[:80])
            if isinstance(st, ast.Return) and isinstance(st.value, ast.IfExp):
                ife = st.value
                st = ast.If(test=ife.test, body=[ast.Return(value=ife.body)], orelse=[ast.Return(value=ife.orelse)])
            if isinstance(st, ast.Return):
                results.append((pc, self._expr(st.value, env) if st.value is not None else NONE))
                return None
            if isinstance(st, ast.Assign):
                if len(st.targets) != 1 or not isinstance(st.targets[0], ast.Name):
                    raise Untranslatable("assignment target")
                env = dict(env)
                env[st.targets[0].id] = self._expr(st.value, env)
                continue
            if isinstance(st, ast.If):
                c = self._cond(st.test, env)
                rest = stmts[i + 1 :]
                if isinstance(c, bool):
                    branch = st.body if c else st.orelse
                    out = self._block(list(branch) + rest, env, pc, results)
                    return out
                saved = dict(self.iv)
                self._refine(st.test, env, True)
                self._block(list(st.body) + rest, env, z3.And(pc, c), results)
                self.iv = dict(saved)
                self._refine(st.test, env, False)
                self._block(list(st.orelse) + rest, env, z3.And(pc, z3.Not(c)), results)
                self.iv = saved
                return None
            if isinstance(st, ast.Try):
                return self._block(list(st.body) + stmts[i + 1 :], env, pc, results)
            if isinstance(st, ast.Pass):
                continue
            raise Untranslatable(type(st).__name__)
        results.append((pc, NONE))  # fell off the end
        return pc

    # ------------------------------------------------------------------ path-sensitive intervals
    def _refine(self, test, env, truth):
        """narrow the interval of a symbolic variable under `test` (truth=True) or its negation (truth=False);
        only sound narrowings: atoms `x OP const` joined by `and` (when true) / `or` (when false)"""
        if isinstance(test, ast.BoolOp):
            if (isinstance(test.op, ast.And) and truth) or (isinstance(test.op, ast.Or) and not truth):
                for v in test.values:
                    self._refine(v, env, truth)
            return
        if isinstance(test, ast.UnaryOp) and isinstance(test.op, ast.Not):
            self._refine(test.operand, env, not truth)
            return
        if not (isinstance(test, ast.Compare) and len(test.ops) == 1):
            return
        left, op, right = test.left, test.ops[0], test.comparators[0]
        try:
            lv, rv = self._expr(left, env), self._expr(right, env)
        except Untranslatable:
            return
        if isinstance(lv, int) and not isinstance(rv, int):
            lv, rv = rv, lv
            op = {ast.Lt: ast.Gt, ast.Gt: ast.Lt, ast.LtE: ast.GtE, ast.GtE: ast.LtE}.get(type(op), type(op))()
        if not (isinstance(rv, int) and not isinstance(lv, (int, str, tuple, dict)) and lv is not NONE and z3.is_bv(lv)):
            return
        try:
            lo, hi = self._iv(lv)
        except Untranslatable:
            return
        k = type(op)
        if not truth:
            k = {ast.Lt: ast.GtE, ast.GtE: ast.Lt, ast.Gt: ast.LtE, ast.LtE: ast.Gt, ast.Eq: ast.NotEq, ast.NotEq: ast.Eq}.get(k)
        if k is ast.Lt:
            hi = min(hi, rv - 1)
        elif k is ast.LtE:
            hi = min(hi, rv)
        elif k is ast.Gt:
            lo = max(lo, rv + 1)
        elif k is ast.GtE:
            lo = max(lo, rv)
        elif k is ast.Eq:
            lo, hi = max(lo, rv), min(hi, rv)
        if lo <= hi:
            self.iv[lv.get_id()] = (lo, hi)

    # ------------------------------------------------------------------ expressions
    def _cond(self, e, env):
        v = self._expr(e, env)
        if isinstance(v, bool):
            return v
        if v is NONE:
            return False
        if z3.is_bool(v):
            return v
        if z3.is_bv(v):
            return v != 0
        if isinstance(v, (int, str, tuple, dict)):
            return bool(v)
        raise Untranslatable("condition value")


    def _expr(self, e, env):
        if isinstance(e, ast.Constant):
            if e.value is None:
                return NONE
            return e.value
        if isinstance(e, ast.Name):
            if e.id in env:
                return env[e.id]
            if e.id in ("int", "float", "OverflowError", "ValueError"):
                return e.id
            raise Untranslatable(f"free name {e.id}")
        if isinstance(e, ast.Tuple):
            return tuple(self._expr(x, env) for x in e.elts)
        if isinstance(e, ast.Dict):
            return {self._expr(k, env): self._expr(v, env) for k, v in zip(e.keys, e.values)}
        if isinstance(e, ast.UnaryOp):
            v = self._expr(e.operand, env)
            if isinstance(e.op, ast.USub):
                if isinstance(v, int):
                    return -v
                lv = self._lift(v)
                lo, hi = self._iv(lv)
                return self._set(-lv, -hi, -lo)
            if isinstance(e.op, ast.Not):
                c = self._cond(e.operand, env)
                return (not c) if isinstance(c, bool) else z3.Not(c)
            raise Untranslatable("unary op")
        if isinstance(e, ast.BoolOp):
            cs = [self._cond(x, env) for x in e.values]
            if all(isinstance(c, bool) for c in cs):
                return all(cs) if isinstance(e.op, ast.And) else any(cs)
            zs = [z3.BoolVal(c) if isinstance(c, bool) else c for c in cs]
            return z3.And(*zs) if isinstance(e.op, ast.And) else z3.Or(*zs)
        if isinstance(e, ast.Compare):
            left = self._expr(e.left, env)
            terms = []
            for op, rhs_e in zip(e.ops, e.comparators):
                right = self._expr(rhs_e, env)
                terms.append(self._compare(op, left, right))
                left = right
            if all(isinstance(t, bool) for t in terms):
                return all(terms)
            return z3.And(*[z3.BoolVal(t) if isinstance(t, bool) else t for t in terms])
        if isinstance(e, ast.IfExp):
            c = self._cond(e.test, env)
            a, b = self._expr(e.body, env), self._expr(e.orelse, env)
            if isinstance(c, bool):
                return a if c else b
            if a is NONE or b is NONE:
                raise Untranslatable("None in conditional expression")
            la, lb = self._lift(a), self._lift(b)
            (x1, y1), (x2, y2) = self._iv(la), self._iv(lb)
            return self._set(z3.If(c, la, lb), min(x1, x2), max(y1, y2))
        if isinstance(e, ast.BinOp):
            return self._binop(e.op, self._expr(e.left, env), self._expr(e.right, env))
        if isinstance(e, ast.Call):
            if isinstance(e.func, ast.Name):
                fn = e.func.id
                args = [self._expr(a, env) for a in e.args]
                if fn == "abs":
                    v = self._lift(args[0])
                    lo, hi = self._iv(v)
                    m = max(abs(lo), abs(hi))
                    return self._set(z3.If(v < 0, -v, v), 0, m)
                if fn == "int":
                    return args[0]
                if fn == "isinstance":
                    return True  # results of integer arithmetic are ints
                raise Untranslatable(f"call {fn}")
            if isinstance(e.func, ast.Attribute) and e.func.attr == "get":
                d = self._expr(e.func.value, env)
                args = [self._expr(a, env) for a in e.args]
                if isinstance(d, dict) and isinstance(args[0], str):
                    return d.get(args[0], args[1] if len(args) > 1 else NONE)
            raise Untranslatable("call")
        raise Untranslatable(type(e).__name__)

    def _compare(self, op, a, b):
        if isinstance(a, str) or isinstance(b, str):
            if isinstance(a, str) and isinstance(b, str):
                if isinstance(op, ast.Eq):
                    return a == b
                if isinstance(op, ast.NotEq):
                    return a != b
            if isinstance(op, (ast.In, ast.NotIn)) and isinstance(b, tuple):
                r = a in b
                return r if isinstance(op, ast.In) else not r
            raise Untranslatable("string comparison")
        if a is NONE or b is NONE:
            if isinstance(op, (ast.Is, ast.Eq)):
                return a is b
            if isinstance(op, (ast.IsNot, ast.NotEq)):
                return a is not b
            raise Untranslatable("None comparison")
        if isinstance(a, int) and isinstance(b, int) and not isinstance(a, bool):
            return {ast.Eq: a == b, ast.NotEq: a != b, ast.Lt: a < b, ast.LtE: a <= b, ast.Gt: a > b, ast.GtE: a >= b}[type(op)]
        a, b = self._lift(a), self._lift(b)
        if isinstance(op, ast.Eq):
            return a == b
        if isinstance(op, ast.NotEq):
            return a != b
        if isinstance(op, ast.Lt):
            return a < b
        if isinstance(op, ast.LtE):
            return a <= b
        if isinstance(op, ast.Gt):
            return a > b
        if isinstance(op, ast.GtE):
            return a >= b
        raise Untranslatable("comparison op")

    # ------------------------------------------------------------------ intervals (width sufficiency)
    def _iv(self, t):
        if isinstance(t, bool):
            return (int(t), int(t))
        if isinstance(t, int):
            return (t, t)
        if z3.is_bv_value(t):
            v = t.as_signed_long()
            return (v, v)
        r = self.iv.get(t.get_id())
        if r is None:
            if z3.is_bool(t):
                return (0, 1)
            raise Untranslatable("no interval for an intermediate value")
        return r

    def _set(self, t, lo, hi):
        lim = 2 ** (W - 1)
        if lo < -lim or hi > lim - 1:
            raise Untranslatable(f"width: intermediate in [{lo}, {hi}] does not fit {W} bits")
        self.iv[t.get_id()] = (lo, hi)
        return t

    def _lift(self, v):
        if isinstance(v, bool):
            return bv(1 if v else 0)
        if isinstance(v, int):
            return bv(v)
        if z3.is_bool(v):
            t = z3.If(v, bv(1), bv(0))
            self.iv[t.get_id()] = (0, 1)
            return t
        return v

    def _binop(self, op, a, b):
        if isinstance(a, int) and isinstance(b, int):
            import operator

            table = {ast.Add: operator.add, ast.Sub: operator.sub, ast.Mult: operator.mul, ast.FloorDiv: operator.floordiv, ast.Mod: operator.mod, ast.Pow: operator.pow,
                     ast.LShift: operator.lshift, ast.RShift: operator.rshift, ast.BitAnd: operator.and_, ast.BitOr: operator.or_, ast.BitXor: operator.xor}
            return table[type(op)](a, b)
        a, b = self._lift(a), self._lift(b)
        (al, ah), (bl, bh) = self._iv(a), self._iv(b)
        amax, bmax = max(abs(al), abs(ah)), max(abs(bl), abs(bh))
        if isinstance(op, ast.Add):
            return self._set(a + b, al + bl, ah + bh)
        if isinstance(op, ast.Sub):
            return self._set(a - b, al - bh, ah - bl)
        if isinstance(op, ast.Mult):
            c = [al * bl, al * bh, ah * bl, ah * bh]
            return self._set(a * b, min(c), max(c))
        if isinstance(op, ast.FloorDiv):
            return self._set(py_floordiv(a, b), -amax - 1, amax + 1)
        if isinstance(op, ast.Mod):
            return self._set(py_mod(a, b), -bmax, bmax)
        if isinstance(op, (ast.BitAnd, ast.BitOr, ast.BitXor)):
            bits = max(amax, bmax).bit_length() + 1
            t = {ast.BitAnd: a & b, ast.BitOr: a | b, ast.BitXor: a ^ b}[type(op)]
            return self._set(t, -(2**bits), 2**bits)
        if isinstance(op, ast.RShift):
            if bl < 0 or bh >= W:
                raise Untranslatable("shift count range")
            return self._set(a >> b, min(al, -1 if al < 0 else 0), max(ah, 0))
        if isinstance(op, ast.LShift):
            if bl < 0 or bh >= W:
                raise Untranslatable("shift count range")
            return self._set(a << b, -(amax << bh), amax << bh)
        if isinstance(op, ast.Pow):
            if not z3.is_bv_value(b):
                raise Untranslatable("symbolic exponent (specialise the region on a concrete exponent)")
            k = b.as_signed_long()
            if not 0 <= k <= 64:
                raise Untranslatable("exponent")
            acc = bv(1)
            for i in range(k):
                acc = self._set(acc * a, -(amax ** (i + 1)), amax ** (i + 1))
            return acc
        raise Untranslatable("binary op")


def evaluate(results, model_subst):
    """concrete evaluation of a run() result under a substitution [(var, value)] -> python value or None"""
    for pc, val in results:
        c = z3.simplify(z3.substitute(pc, *model_subst))
        if z3.is_true(c):
            if val is NONE:
                return None
            if isinstance(val, (int, bool)):
                return int(val)
            v = z3.simplify(z3.substitute(val, *model_subst)) if not isinstance(val, tuple) else val
            if z3.is_bool(v):
                return z3.is_true(v)
            if z3.is_bv_value(v):
                return v.as_signed_long()
            return v
    raise Untranslatable("no path taken")
