"""Value domains for the Factorio 2.0 circuit model.

Two implementations of the same interface:

  * Z3Dom  - 32-bit bit-vectors (z3), used to build the solver queries;
  * IntDom - plain Python ints wrapped to int32, used to REPLAY solver models tick by tick.

They are written separately on purpose (truncating division, remainder sign, arithmetic
shift are the places where a model goes wrong); `vf.selftest` pushes fixed vectors through both.

Corners the model deliberately leaves uninterpreted (shared uninterpreted functions, used
identically wherever they occur):  a ** b for b outside [0, 8];  shifts with count outside
[0, 31];  INT_MIN / -1 and INT_MIN % -1.  IntDom resolves them through `uf_oracle`, which the
replay code fills from the solver model, so a replay follows exactly the model the solver chose.
"""
from __future__ import annotations

import z3

INT_MIN = -(2**31)
INT_MAX = 2**31 - 1
POW_MAX = 8


def wrap32(n: int) -> int:
    n &= 0xFFFFFFFF
    return n - (1 << 32) if n & 0x80000000 else n


class CornerCase(Exception):
    """IntDom hit an uninterpreted corner without an oracle."""


class Z3Dom:
    name = "z3"

    def __init__(self):
        bv = z3.BitVecSort(32)
        self.uf = {
            "pow": z3.Function("uf_pow", bv, bv, bv),
            "shl": z3.Function("uf_shl", bv, bv, bv),
            "shr": z3.Function("uf_shr", bv, bv, bv),
            "div": z3.Function("uf_div", bv, bv, bv),
            "mod": z3.Function("uf_mod", bv, bv, bv),
        }
        self.corner_terms = []  # (kind, a, b) applications, for replay oracles

    # -- construction -----------------------------------------------------------------
    def const(self, n):
        return z3.BitVecVal(wrap32(int(n)), 32)

    def var(self, name):
        return z3.BitVec(name, 32)

    def is_const(self, v):
        return z3.is_bv_value(v)

    def true(self):
        return z3.BoolVal(True)

    def false(self):
        return z3.BoolVal(False)

    # -- arithmetic -------------------------------------------------------------------
    def add(self, a, b):
        return a + b

    def sub(self, a, b):
        return a - b

    def mul(self, a, b):
        return a * b

    def neg(self, a):
        return -a

    def _uf(self, kind, a, b):
        self.corner_terms.append((kind, a, b))
        return self.uf[kind](a, b)

    def div(self, a, b):
        # truncation toward zero; x/0 = 0; INT_MIN / -1 uninterpreted
        corner = z3.And(a == self.const(INT_MIN), b == self.const(-1))
        return z3.If(b == 0, self.const(0), z3.If(corner, self._uf("div", a, b), a / b))

    def mod(self, a, b):
        # sign of the dividend (C remainder); x%0 = 0
        corner = z3.And(a == self.const(INT_MIN), b == self.const(-1))
        return z3.If(b == 0, self.const(0), z3.If(corner, self._uf("mod", a, b), z3.SRem(a, b)))

    def pow(self, a, b):
        r = self._uf("pow", a, b)
        acc = self.const(1)
        cases = []
        for k in range(POW_MAX + 1):
            cases.append((k, acc))
            acc = acc * a
        for k, val in reversed(cases):
            r = z3.If(b == k, val, r)
        return r

    def shl(self, a, b):
        inr = z3.And(b >= 0, b <= 31)
        return z3.If(inr, a << b, self._uf("shl", a, b))

    def shr(self, a, b):
        inr = z3.And(b >= 0, b <= 31)
        return z3.If(inr, a >> b, self._uf("shr", a, b))  # >> on BitVecRef is arithmetic

    def band(self, a, b):
        return a & b

    def bor(self, a, b):
        return a | b

    def bxor(self, a, b):
        return a ^ b

    # -- comparisons / booleans ---------------------------------------------------------
    def cmp(self, op, a, b):
        if op == "<":
            return a < b
        if op == "<=":
            return a <= b
        if op == ">":
            return a > b
        if op == ">=":
            return a >= b
        if op == "==":
            return a == b
        if op == "!=":
            return a != b
        raise ValueError(op)

    def and_(self, *xs):
        return z3.And(*xs) if xs else z3.BoolVal(True)

    def or_(self, *xs):
        return z3.Or(*xs) if xs else z3.BoolVal(False)

    def not_(self, x):
        return z3.Not(x)

    def ite(self, c, a, b):
        return z3.If(c, a, b)

    def bite(self, c, a, b):
        return z3.If(c, a, b)

    def b2i(self, c):
        return z3.If(c, self.const(1), self.const(0))

    def simplify(self, v):
        return z3.simplify(v)


class IntDom:
    name = "int"

    def __init__(self, uf_oracle=None):
        self.uf_oracle = uf_oracle
        self.corner_hits = []

    def const(self, n):
        return wrap32(int(n))

    def is_const(self, v):
        return True

    def true(self):
        return True

    def false(self):
        return False

    def add(self, a, b):
        return wrap32(a + b)

    def sub(self, a, b):
        return wrap32(a - b)

    def mul(self, a, b):
        return wrap32(a * b)

    def neg(self, a):
        return wrap32(-a)

    def _uf(self, kind, a, b):
        self.corner_hits.append((kind, a, b))
        if self.uf_oracle is None:
            raise CornerCase((kind, a, b))
        return wrap32(self.uf_oracle(kind, a, b))

    def div(self, a, b):
        if b == 0:
            return 0
        if a == INT_MIN and b == -1:
            return self._uf("div", a, b)
        q = abs(a) // abs(b)
        return wrap32(-q if (a < 0) != (b < 0) else q)

    def mod(self, a, b):
        if b == 0:
            return 0
        if a == INT_MIN and b == -1:
            return self._uf("mod", a, b)
        r = abs(a) % abs(b)
        return wrap32(-r if a < 0 else r)

    def pow(self, a, b):
        if 0 <= b <= POW_MAX:
            r = 1
            for _ in range(b):
                r = wrap32(r * a)
            return r
        return self._uf("pow", a, b)

    def shl(self, a, b):
        if 0 <= b <= 31:
            return wrap32(a << b)
        return self._uf("shl", a, b)

    def shr(self, a, b):
        if 0 <= b <= 31:
            return wrap32(a >> b)
        return self._uf("shr", a, b)

    def band(self, a, b):
        return wrap32(a & b)

    def bor(self, a, b):
        return wrap32(a | b)

    def bxor(self, a, b):
        return wrap32(a ^ b)

    def cmp(self, op, a, b):
        return {
            "<": a < b,
            "<=": a <= b,
            ">": a > b,
            ">=": a >= b,
            "==": a == b,
            "!=": a != b,
        }[op]

    def and_(self, *xs):
        return all(xs)

    def or_(self, *xs):
        return any(xs)

    def not_(self, x):
        return not x

    def ite(self, c, a, b):
        return a if c else b

    def bite(self, c, a, b):
        return a if c else b

    def b2i(self, c):
        return 1 if c else 0

    def simplify(self, v):
        return v


ARITH_OPS = {
    "+": "add",
    "-": "sub",
    "*": "mul",
    "/": "div",
    "%": "mod",
    "^": "pow",
    "**": "pow",
    "<<": "shl",
    ">>": "shr",
    "AND": "band",
    "OR": "bor",
    "XOR": "bxor",
}


def arith(dom, op, a, b):
    return getattr(dom, ARITH_OPS[op])(a, b)
