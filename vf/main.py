"""Entry point of the E1-based checks:  python -m vf.main C01   (VERIF_TIER=quick|thorough, VERIF_SEED=int)"""
from __future__ import annotations

import sys

from . import props, runner
from .report import Run, main_wrapper


def run_prop(prop, extra_parts=(), post=None):
    cfg = props.PROPS[prop]
    run = Run(prop, cfg["level"])
    from .selftest import CASES, run_selftest

    for msg in run_selftest():
        run.harness_error("model-selftest", msg)
    corpus = runner.load_corpus(cfg.get("corpus", prop))
    cases = runner.select(corpus, run.tier)
    extra = cfg.get("extra_cases")
    if extra:
        cases = list(extra(run.tier)) + list(cases)
    defaults = dict(cfg["defaults"])
    if run.tier == "thorough":
        defaults.update(cfg.get("thorough_defaults", {}))
    results, stats = runner.run_cases(run, cases, defaults)
    samples = []
    for c in cases:
        if len(samples) >= 4:
            break
        from .gen import program_src

        if c.get("kind") in ("kernel", "kernel2"):
            if not any("kernel" in x for x in samples):
                samples.append({"case": c["id"], "kernel": c.get("kernel") or "ConstantFolder.extract_constant_int", "operator": c.get("op") or c.get("pair"), "query": "exists a,b in int32: folded value in int32 and != run-time value (per sign region)"})
            continue

        st = c.get("stmts") or (c.get("pairs") or [{}])[0].get("a", {}).get("stmts")
        if st:
            samples.append({"case": c["id"], "program": program_src(st, "min"), "compiled": (results.get(c["id"], {}).get("compiled") or [])[:4]})
    cov = {
        "programs": stats["accepted_compiles"],
        "disagreements_checked": run.queries.get("sat", 0),
        "samples": samples,
        "evaluations": run.queries.get("unsat", 0) + run.queries.get("sat", 0) + run.queries.get("unknown", 0),
        "distinct_nontrivial": stats["clean_cases"] + stats["cases_with_findings"],
        "rule": "one evaluation = one solver query (exists inputs: observed != reference); a case is non-trivial if the real compiler accepted it and at least one query was decided",
        "corpus": stats,
        "explanation": cfg["what"] + "  Bounds: " + cfg["bounds"],
        "what_is_decided": cfg["what"],
        "bounds": cfg["bounds"],
        "parameters": {k: v for k, v in defaults.items() if k not in ("builds",)},
        "functions_encoded": "whole pipeline output: the blueprint JSON returned by dsl_compiler.cli.compile_dsl_source is encoded entity by entity (vf/bp.py); reference = vf/gen.py interpreter on the generator's own AST",
        "model_selftest_cases": len(CASES),
        "excluded_duplicates_of_known_defects": len(corpus.get("excluded_known_defect_duplicates", [])),
    }
    for part in extra_parts:
        part(run, cov)
    if post is not None:
        post(run, results, cov)
    return run.finish(cov, props.COMMON_ASSUMPTIONS + cfg.get("assumptions", []))


if __name__ == "__main__":
    main_wrapper(lambda: run_prop(sys.argv[1]))
