"""Engine E3: the REAL CP-SAT model built by IntegerLayoutEngine (captured at CpSolver.solve) -> z3.

CP-SAT's contract: with status FEASIBLE/OPTIMAL the returned values satisfy every constraint, and under a time
limit FEASIBLE may be ANY feasible assignment.  "For every placement the layout stage may settle on" is therefore
"for every model of the proto"; a property implied by the hard constraints is decided by UNSAT of proto /\ not(property).
"""
from __future__ import annotations

import z3

KINDS = ("linear", "lin_max", "int_prod", "interval", "no_overlap_2d", "bool_or", "bool_and", "at_most_one", "exactly_one", "all_diff", "int_div", "int_mod", "element", "table", "automaton", "circuit", "cumulative", "no_overlap", "routes", "reservoir", "inverse", "bool_xor")


def _expr(e):
    return {"vars": list(e.vars), "coeffs": list(e.coeffs), "offset": int(e.offset)}


def proto_to_dict(p):
    """plain-Python copy of a cp_model_helper.CpModelProto (only what the layout engine uses; unknown kinds are named)"""
    out = {"variables": [{"name": v.name, "domain": list(v.domain)} for v in p.variables], "constraints": []}
    for c in p.constraints:
        kind = None
        for k in KINDS:
            h = getattr(c, "has_" + k, None)
            if h is not None and h():
                kind = k
                break
        d = {"kind": kind, "enforce": list(c.enforcement_literal)}
        if kind == "linear":
            d.update({"vars": list(c.linear.vars), "coeffs": list(c.linear.coeffs), "domain": list(c.linear.domain)})
        elif kind == "lin_max":
            d.update({"target": _expr(c.lin_max.target), "exprs": [_expr(e) for e in c.lin_max.exprs]})
        elif kind == "int_prod":
            d.update({"target": _expr(c.int_prod.target), "exprs": [_expr(e) for e in c.int_prod.exprs]})
        elif kind == "interval":
            d.update({"start": _expr(c.interval.start), "size": _expr(c.interval.size), "end": _expr(c.interval.end)})
        elif kind == "no_overlap_2d":
            d.update({"x": list(c.no_overlap_2d.x_intervals), "y": list(c.no_overlap_2d.y_intervals)})
        out["constraints"].append(d)
    return out


class Model:
    def __init__(self, pd, use=("domain", "linear", "lin_max", "int_prod", "interval", "no_overlap_2d")):
        self.pd = pd
        self.vars = [z3.Int(f"v{i}_{v['name']}") for i, v in enumerate(pd["variables"])]
        self.byname = {v["name"]: self.vars[i] for i, v in enumerate(pd["variables"]) if v["name"]}
        self.cs = []
        self.unknown_kinds = set()
        for i, v in enumerate(pd["variables"]):
            dom = v["domain"]
            self.cs.append(z3.Or(*[z3.And(self.vars[i] >= dom[j], self.vars[i] <= dom[j + 1]) for j in range(0, len(dom), 2)]))
        for ci, c in enumerate(pd["constraints"]):
            k = c["kind"]
            if k not in use:
                if k not in ("linear", "lin_max", "int_prod", "interval", "no_overlap_2d"):
                    self.unknown_kinds.add(k)
                continue
            body = self._constraint(c)
            if body is None:
                continue
            if c["enforce"]:
                body = z3.Implies(z3.And(*[self._lit(l) for l in c["enforce"]]), body)
            self.cs.append(body)

    def _lit(self, l):
        return self.vars[l] == 1 if l >= 0 else self.vars[-l - 1] == 0

    def lin(self, e):
        t = z3.IntVal(e["offset"])
        for v, co in zip(e["vars"], e["coeffs"]):
            t = t + co * self.vars[v]
        return t

    def _constraint(self, c):
        k = c["kind"]
        if k == "linear":
            s = self.lin({"vars": c["vars"], "coeffs": c["coeffs"], "offset": 0})
            dom = c["domain"]
            parts = []
            for j in range(0, len(dom), 2):
                lo, hi = dom[j], dom[j + 1]
                conj = []
                if lo > -(2**62):
                    conj.append(s >= lo)
                if hi < 2**62:
                    conj.append(s <= hi)
                parts.append(z3.And(*conj) if conj else z3.BoolVal(True))
            return z3.Or(*parts)
        if k == "lin_max":
            t = self.lin(c["target"])
            es = [self.lin(e) for e in c["exprs"]]
            return z3.And(*[t >= e for e in es], z3.Or(*[t == e for e in es]))
        if k == "int_prod":
            t = self.lin(c["target"])
            prod = z3.IntVal(1)
            for e in c["exprs"]:
                prod = prod * self.lin(e)
            return t == prod
        if k == "interval":
            return self.lin(c["start"]) + self.lin(c["size"]) == self.lin(c["end"])
        if k == "no_overlap_2d":
            ivs = self.pd["constraints"]
            boxes = []
            for xi, yi in zip(c["x"], c["y"]):
                X, Y = ivs[xi], ivs[yi]
                boxes.append((self.lin(X["start"]), self.lin(X["end"]), self.lin(Y["start"]), self.lin(Y["end"])))
            cs = []
            for i in range(len(boxes)):
                for j in range(i + 1, len(boxes)):
                    a, b = boxes[i], boxes[j]
                    cs.append(z3.Or(a[1] <= b[0], b[1] <= a[0], a[3] <= b[2], b[3] <= a[2]))
            return z3.And(*cs) if cs else z3.BoolVal(True)
        return None

    def solve(self, extra, timeout_ms=60_000):
        import time

        s = z3.Solver()
        s.set("timeout", timeout_ms)
        for c in self.cs:
            s.add(c)
        for c in extra:
            s.add(c)
        t0 = time.time()
        r = str(s.check())
        return r, (s.model() if r == "sat" else None), time.time() - t0
