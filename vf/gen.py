"""Own AST for Facto programs: printer (two parenthesisation modes) and reference interpreter.

Nothing here uses the compiler's parser or AST.  Expressions are nested lists (JSON-friendly):

  ["k", n]                      integer literal
  ["v", name]                   reference to a named value (input, int, Signal, Bundle, parameter, iterator)
  ["bin", op, l, r]             op in + - * / % ** << >> AND OR XOR
  ["cmp", op, l, r]             op in == != < <= > >=
  ["and", l, r] ["or", l, r]    logical (printed && / ||, or `and` / `or` with ["andw",..], ["orw",..])
  ["not", e] ["neg", e]
  ["proj", e, T]                e | "T"       (T = string or ["typeof", name])
  ["lit", T, e]                 ("T", e)
  ["cond", c, v]                c : v
  ["read", mem]                 mem.read()
  ["call", f, [args]]
  bundles:
  ["bundle", [elems]]           { e1, e2, ... }
  ["any", b] ["all", b]         only inside a cmp as left operand
  ["sel", b, T]                 b["T"]
  ["out", entity]               entity.output

Statements:
  ["input", name, T|None, default]     Signal name = ("T", default);   (declared input)
  ["int", name, e]    ["sig", name, e]    ["bun", name, e]
  ["mem", name, T|None]
  ["write", mem, e, when|None]
  ["latch", mem, v, set, reset, "sr"|"rs"]
  ["place", name, proto, x, y, props|None]
  ["enable", entity, e]
  ["func", name, [[ptype, pname]...], [stmts], ret_expr|None]
  ["for", var, ["range", a, b, step|None] | ["list", [..]], [stmts]]
  ["import", path]
  ["expr", e]
"""
from __future__ import annotations

from .dom import arith

PREC = {  # documented precedence, larger = tighter
    "or": 1,
    "and": 2,
    "cond": 3,
    "cmp": 4,
    "proj": 5,
    "OR": 6,
    "XOR": 7,
    "AND": 8,
    "<<": 9,
    ">>": 9,
    "+": 10,
    "-": 10,
    "*": 11,
    "/": 11,
    "%": 11,
    "**": 12,
    "unary": 13,
    "atom": 14,
}


def prec(e):
    k = e[0]
    if k in ("k",):
        return PREC["atom"] if e[1] >= 0 else PREC["unary"]
    if k in ("v", "lit", "read", "call", "bundle", "any", "all", "sel", "out"):
        return PREC["atom"]
    if k == "bin":
        return PREC[e[1]]
    if k == "cmp":
        return PREC["cmp"]
    if k in ("and", "andw"):
        return PREC["and"]
    if k in ("or", "orw"):
        return PREC["or"]
    if k in ("not", "neg"):
        return PREC["unary"]
    if k == "proj":
        return PREC["proj"]
    if k == "cond":
        return PREC["cond"]
    raise ValueError(k)


def tstr(T):
    if isinstance(T, list) and T[0] == "typeof":
        return f"{T[1]}.type"
    return '"%s"' % T


def src(e, mode="full"):
    """Facto text of an expression.  mode 'full': every composite operand parenthesised;
    'min': only the parentheses the documented precedence table requires."""
    k = e[0]

    def sub(x, need, right_assoc_side=False):
        s = src(x, mode)
        p = prec(x)
        if p >= PREC["atom"]:
            return s
        if mode == "full":
            return f"({s})"
        if p < need or (p == need and right_assoc_side):
            return f"({s})"
        return s

    if k == "k":
        return str(e[1])
    if k == "v":
        return e[1]
    if k == "bin":
        op = e[1]
        p = PREC[op]
        if op == "**":  # right associative: left operand needs parens at equal precedence
            return f"{sub(e[2], p, True)} ** {sub(e[3], p)}"
        return f"{sub(e[2], p)} {op} {sub(e[3], p, True)}"
    if k == "cmp":
        p = PREC["cmp"]
        return f"{sub(e[2], p)} {e[1]} {sub(e[3], p, True)}"
    if k in ("and", "andw", "or", "orw"):
        p = PREC["and" if k.startswith("and") else "or"]
        tok = {"and": "&&", "andw": "and", "or": "||", "orw": "or"}[k]
        return f"{sub(e[1], p)} {tok} {sub(e[2], p, True)}"
    if k == "not":
        return "!" + sub(e[1], PREC["unary"])
    if k == "neg":
        inner = sub(e[1], PREC["unary"])
        if inner.startswith("-"):
            inner = f"({inner})"
        return "-" + inner
    if k == "proj":
        return f"{sub(e[1], PREC['proj'])} | {tstr(e[2])}"
    if k == "lit":
        return f"({tstr(e[1])}, {src(e[2], mode)})"
    if k == "cond":
        v = src(e[2], mode)
        if prec(e[2]) < PREC["atom"] or (e[2][0] == "k" and e[2][1] < 0):
            v = f"({v})"
        return f"{sub(e[1], PREC['cmp'])} : {v}"
    if k == "read":
        return f"{e[1]}.read()"
    if k == "call":
        return f"{e[1]}({', '.join(src(a, mode) for a in e[2])})"
    if k == "bundle":
        return "{ " + ", ".join(src(a, mode) for a in e[1]) + " }" if e[1] else "{}"
    if k in ("any", "all"):
        return f"{k}({src(e[1], mode)})"
    if k == "sel":
        return f'{sub(e[1], PREC["atom"])}["{e[2]}"]'
    if k == "out":
        return f"{e[1]}.output"
    raise ValueError(k)


def stmt_src(s, mode="full", indent=""):
    k = s[0]
    if k == "input":
        _, name, T, default = s
        if T is None:
            return f"{indent}Signal {name} = {default};"
        return f'{indent}Signal {name} = ("{T}", {default});'
    if k == "sigconst":
        return f"{indent}Signal {s[1]} = {s[2]};"
    if k == "int":
        return f"{indent}int {s[1]} = {src(s[2], mode)};"
    if k == "sig":
        return f"{indent}Signal {s[1]} = {src(s[2], mode)};"
    if k == "bun":
        return f"{indent}Bundle {s[1]} = {src(s[2], mode)};"
    if k == "mem":
        return f"{indent}Memory {s[1]}" + (f': "{s[2]}"' if s[2] else "") + ";"
    if k == "write":
        if s[3] is None:
            return f"{indent}{s[1]}.write({src(s[2], mode)});"
        return f"{indent}{s[1]}.write({src(s[2], mode)}, when={src(s[3], mode)});"
    if k == "latch":
        _, m, v, st, rs, order = s
        if order == "sr":
            return f"{indent}{m}.write({src(v, mode)}, set={src(st, mode)}, reset={src(rs, mode)});"
        return f"{indent}{m}.write({src(v, mode)}, reset={src(rs, mode)}, set={src(st, mode)});"
    if k == "place":
        _, name, proto, x, y, props = s
        p = ""
        if props:
            p = ", {" + ", ".join(f"{a}: {b}" for a, b in props.items()) + "}"
        return f'{indent}Entity {name} = place("{proto}", {src(x, mode)}, {src(y, mode)}{p});'
    if k == "enable":
        return f"{indent}{s[1]}.enable = {src(s[2], mode)};"
    if k == "func":
        _, name, params, body, ret = s
        lines = [f"{indent}func {name}({', '.join(f'{t} {n}' for t, n in params)}) {{"]
        for b in body:
            lines.append(stmt_src(b, mode, indent + "    "))
        if ret is not None:
            lines.append(f"{indent}    return {src(ret, mode)};")
        lines.append(indent + "}")
        return "\n".join(lines)
    if k == "for":
        _, var, it, body = s
        if it[0] == "range":
            a, b, st = it[1], it[2], it[3]
            rng = f"{_bound(a)}..{_bound(b)}" + (f" step {_bound(st)}" if st is not None else "")
        else:
            rng = "[" + ", ".join(str(x) for x in it[1]) + "]"
        lines = [f"{indent}for {var} in {rng} {{"]
        for b in body:
            lines.append(stmt_src(b, mode, indent + "    "))
        lines.append(indent + "}")
        return "\n".join(lines)
    if k == "import":
        return f'{indent}import "{s[1]}";'
    if k == "expr":
        return f"{indent}{src(s[1], mode)};"
    if k == "raw":
        return indent + s[1]
    raise ValueError(k)


def _bound(b):
    return str(b)


def program_src(stmts, mode="full"):
    return "\n".join(stmt_src(s, mode) for s in stmts) + "\n"


# ======================================================================================
#  Reference interpreter
# ======================================================================================


def _is_virtual(t):
    return isinstance(t, str) and t.startswith("signal-")


class RefError(Exception):
    """the reference does not define this program (outside the claim)"""


class Sig:
    """scalar signal value: carrier type (str, or None when the compiler chooses) and value"""

    __slots__ = ("type", "val")

    def __init__(self, type_, val):
        self.type = type_
        self.val = val


class Bun:
    """bundle: {signal: value}; `dyn` entries come from entity contents"""

    __slots__ = ("m",)

    def __init__(self, m):
        self.m = dict(m)


class EntRef:
    __slots__ = ("id",)

    def __init__(self, id_):
        self.id = id_


class Interp:
    """Reference semantics of the stateless fragment (+ hooks for memory reads).

    dom        value domain (Z3Dom / IntDom)
    inputs     name -> dom value for declared inputs
    universe   signal names over which entity contents / bundles are evaluated
    contents   (entity_key, signal) -> dom value      entity_key = (proto, x, y)
    reads      mem name -> dom value (value returned by mem.read())
    """

    def __init__(self, dom, inputs, universe=(), contents=None, reads=None):
        self.d = dom
        self.inputs = inputs
        self.U = list(universe)
        self.contents = contents or (lambda key, s: dom.const(0))
        self.reads = reads or {}
        self.env = [{}]
        self.funcs = {}
        self.mems = {}  # name -> declared type
        self.writes = []  # (mem, value Sig, when Sig|None)
        self.latches = []  # (mem, v, set, reset, order)
        self.places = []  # (proto, x, y, props, key)
        self.enables = []  # (entity key, bool value)
        self.outputs = {}
        self.consumed = set()
        self.toplevel_names = []
        self.depth = 0
        self.place_counter = 0
        self.lib = {}
        self.preconditions = []
        # results declared in a for body (outside any function call) that nothing in their iteration consumes:
        # name -> [Sig, one per iteration]   ("a for loop equals its unrolling": each copy exposes its own result)
        self.loop_outputs = {}
        self._local_consumed = set()
        self._pending = []
        self._in_call = 0

    # -------------------------------------------------------------- scopes
    def lookup(self, name):
        for sc in reversed(self.env):
            if name in sc:
                return sc[name]
        raise RefError(f"undefined {name}")

    def _coord(self, v):
        """coordinates may be ints or Signal-typed compile-time constants (concrete values)"""
        if isinstance(v, Sig):
            val = v.val
            if isinstance(val, int):
                return val
            try:
                import z3 as _z3

                sv = _z3.simplify(val)
                if _z3.is_bv_value(sv):
                    return sv.as_signed_long()
            except Exception:  # noqa: BLE001
                pass
            return None
        return v

    def _consume(self, name):
        """a reference consumes the TOP-LEVEL name only if it resolves to the global scope (not to a
        parameter, local or iterator of the same spelling)"""
        for sc in reversed(self.env[1:]):
            if name in sc:
                self._local_consumed.add((id(sc), name))
                return
        self.consumed.add(name)

    def bind(self, name, val):
        self.env[-1][name] = val

    # -------------------------------------------------------------- expressions
    def int_of(self, v):
        return v if isinstance(v, int) and not isinstance(v, bool) else None

    def as_val(self, v):
        """dom value of an int or Sig"""
        if isinstance(v, int):
            return self.d.const(v)
        if isinstance(v, Sig):
            return v.val
        raise RefError("scalar expected")

    def truth(self, v):
        return self.d.cmp("!=", self.as_val(v), self.d.const(0))

    def ev(self, e):
        d = self.d
        k = e[0]
        if k == "k":
            return int(e[1])
        if k == "v":
            self._consume(e[1])
            return self.lookup(e[1])
        if k == "bin":
            l, r = self.ev(e[2]), self.ev(e[3])
            if isinstance(l, Bun) or isinstance(r, Bun):
                if isinstance(l, Bun) and isinstance(r, Bun):
                    raise RefError("bundle op bundle")
                if isinstance(r, Bun):
                    raise RefError("scalar op bundle not defined by the spec")
                rv = self.as_val(r)
                # member-wise on the non-zero members (a bundle is the map of its non-zero members)
                out = {}
                for s, v in l.m.items():
                    out[s] = d.ite(d.cmp("!=", v, d.const(0)), arith(d, e[1], v, rv), d.const(0))
                return Bun(out)
            if isinstance(l, int) and isinstance(r, int):
                return arith(_INT, e[1], l, r)
            # left operand's type wins; int OP signal takes the signal's type
            t = l.type if isinstance(l, Sig) else r.type
            return Sig(t, arith(d, e[1], self.as_val(l), self.as_val(r)))
        if k == "cmp":
            if e[2][0] in ("any", "all"):
                b = self.ev(e[2][1])
                if not isinstance(b, Bun):
                    raise RefError("any/all of non-bundle")
                rv = self.as_val(self.ev(e[3]))
                terms = []
                for s, v in b.m.items():
                    nz = d.cmp("!=", v, d.const(0))
                    ok = d.cmp(e[1], v, rv)
                    terms.append(d.and_(nz, ok) if e[2][0] == "any" else d.or_(d.not_(nz), ok))
                c = d.or_(*terms) if e[2][0] == "any" else d.and_(*terms)
                return Sig(None, d.b2i(c))
            l, r = self.ev(e[2]), self.ev(e[3])
            if isinstance(l, Bun):
                raise RefError("bare bundle comparison")
            if isinstance(l, int) and isinstance(r, int):
                return 1 if _INT.cmp(e[1], l, r) else 0
            # carrier of a comparison result: LANGUAGE_SPEC says "left operand's type", the analyzer keeps
            # it only for virtual channels; asserted only where both agree (virtual left operand)
            t = l.type if isinstance(l, Sig) and _is_virtual(l.type) else None
            return Sig(t, d.b2i(d.cmp(e[1], self.as_val(l), self.as_val(r))))
        if k in ("and", "andw", "or", "orw"):
            l, r = self.ev(e[1]), self.ev(e[2])
            if isinstance(l, int) and isinstance(r, int):
                if k.startswith("and"):
                    return 1 if (l != 0 and r != 0) else 0
                return 1 if (l != 0 or r != 0) else 0
            f = d.and_ if k.startswith("and") else d.or_
            t = l.type if isinstance(l, Sig) and _is_virtual(l.type) else None
            return Sig(t, d.b2i(f(self.truth(l), self.truth(r))))
        if k == "not":
            v = self.ev(e[1])
            if isinstance(v, int):
                return 1 if v == 0 else 0
            return Sig(None, d.b2i(d.not_(self.truth(v))))
        if k == "neg":
            v = self.ev(e[1])
            if isinstance(v, int):
                return _INT.neg(v)
            return Sig(v.type, d.neg(v.val))
        if k == "proj":
            v = self.ev(e[1])
            T = self.type_of(e[2])
            if isinstance(v, Bun):
                raise RefError("bundle projection")
            return Sig(T, self.as_val(v))
        if k == "lit":
            v = self.ev(e[2])
            return Sig(self.type_of(e[1]), self.as_val(v))
        if k == "cond":
            cexpr, vexpr = e[1], e[2]
            # bundle filter / gating forms
            if cexpr[0] == "cmp" and cexpr[2][0] not in ("any", "all"):
                lv = self.ev(cexpr[2])
                if isinstance(lv, Bun):
                    rv = self.as_val(self.ev(cexpr[3]))
                    outv = self.ev(vexpr)
                    res = {}
                    for s, v in lv.m.items():
                        passing = d.and_(d.cmp("!=", v, d.const(0)), d.cmp(cexpr[1], v, rv))
                        if isinstance(outv, Bun):
                            res[s] = d.ite(passing, outv.m.get(s, d.const(0)), d.const(0))
                        else:
                            res[s] = d.ite(passing, self.as_val(outv), d.const(0))
                    return Bun(res)
            c = self.ev(cexpr)
            v = self.ev(vexpr)
            ct = self.truth(c) if not isinstance(c, int) else (d.true() if c != 0 else d.false())
            if isinstance(v, Bun):
                return Bun({s: d.ite(ct, x, d.const(0)) for s, x in v.m.items()})
            t = v.type if isinstance(v, Sig) else None
            return Sig(t, d.ite(ct, self.as_val(v), d.const(0)))
        if k == "read":
            self._consume(e[1])
            key = self.mem_key(e[1])
            if key not in self.mems:
                raise RefError("read of undeclared memory")
            if key not in self.reads:
                if "__default0__" in self.reads:
                    return Sig(self.mems[key], self.d.const(0))
                raise RefError(f"no read value supplied for {key}")
            return Sig(self.mems[key], self.reads[key])
        if k == "bundle":
            out = {}
            for a in e[1]:
                v = self.ev(a)
                if isinstance(v, Bun):
                    items = v.m.items()
                elif isinstance(v, Sig):
                    if v.type is None:
                        raise RefError("implicitly typed bundle member")
                    items = [(v.type, v.val)]
                else:
                    raise RefError("int bundle member")
                for s, x in items:
                    if s in out:
                        out[s] = d.add(out[s], x)
                    else:
                        out[s] = x
            return Bun(out)
        if k == "sel":
            b = self.ev(e[1])
            return Sig(e[2], b.m.get(e[2], d.const(0)))
        if k == "out":
            ent = self.lookup(e[1])
            self._consume(e[1])
            return Bun({s: self.contents(ent.id, s) for s in self.U})
        if k == "call":
            return self.call(e[1], e[2])
        raise RefError(f"expr {k}")

    def type_of(self, T):
        if isinstance(T, list) and T[0] == "typeof":
            v = self.lookup(T[1])
            if not isinstance(v, Sig) or v.type is None:
                raise RefError("typeof unknown")
            return v.type
        return T

    def mem_key(self, name):
        v = self.lookup(name)
        return v[1] if isinstance(v, tuple) and v[0] == "mem" else name

    # -------------------------------------------------------------- calls
    def call(self, fname, args):
        if fname not in self.funcs and fname in self.lib:
            from .libdoc import call_documented

            vals = [self.ev(a) for a in args]
            return call_documented(self, fname, vals)
        if fname not in self.funcs:
            raise RefError(f"unknown function {fname}")
        _, _, params, body, ret = self.funcs[fname]
        vals = [self.ev(a) for a in args]
        scope = {}
        for (ptype, pname), v in zip(params, vals):
            if ptype == "Signal" and isinstance(v, int):
                v = Sig(None, self.d.const(v))
            if ptype == "int" and not isinstance(v, int):
                raise RefError("signal passed for int parameter")
            scope[pname] = v
        # callee sees globals (functions are defined at top level) + its own scope
        saved = self.env
        self.env = [saved[0], scope]
        self.depth += 1
        self._in_call += 1
        try:
            for s in body:
                self.stmt(s)
            r = self.ev(ret) if ret is not None else None
        finally:
            self._in_call -= 1
            self.depth -= 1
            self.env = saved
            self._local_consumed = {k for k in self._local_consumed if k[0] != id(scope)}
        return r

    # -------------------------------------------------------------- statements
    def stmt(self, s):
        d = self.d
        k = s[0]
        top = self.depth == 0
        if k == "input":
            _, name, T, default = s
            v = self.inputs.get(name)
            self.bind(name, Sig(T, v if v is not None else d.const(default)))
            if top:
                self.toplevel_names.append(name)
        elif k == "sigconst":
            self.bind(s[1], Sig(None, d.const(s[2])))
            self.consumed.add(s[1])  # a concrete helper constant, never checked as an output
        elif k == "int":
            v = self.ev(s[2])
            if not isinstance(v, int):
                raise RefError("int from signal")
            self.bind(s[1], v)
        elif k == "sig":
            v = self.ev(s[2])
            if isinstance(v, int):
                v = Sig(None, d.const(v))
            if isinstance(v, Bun):
                raise RefError("Signal from bundle")
            self.bind(s[1], v)
            if top:
                self.toplevel_names.append(s[1])
            elif self._pending and not self._in_call:
                self._pending[-1].append((s[1], v))
        elif k == "bun":
            v = self.ev(s[2])
            if not isinstance(v, Bun):
                raise RefError("Bundle from scalar")
            self.bind(s[1], v)
            if top:
                self.toplevel_names.append(s[1])
        elif k == "mem":
            key = s[1] if top else f"{s[1]}@{self.place_counter}:{len(self.mems)}"
            self.mems[key] = s[2]
            self.bind(s[1], ("mem", key))
            if top:
                self.toplevel_names.append(s[1])
        elif k == "write":
            key = self.mem_key(s[1])
            v = self.ev(s[2])
            w = self.ev(s[3]) if s[3] is not None else None
            self.writes.append((key, v, w))
            if top:
                self.consumed.add(s[1])
        elif k == "latch":
            key = self.mem_key(s[1])
            self.latches.append((key, self.ev(s[2]), self.ev(s[3]), self.ev(s[4]), s[5]))
            if top:
                self.consumed.add(s[1])
        elif k == "place":
            _, name, proto, x, y, props = s
            xv, yv = self._coord(self.ev(x)), self._coord(self.ev(y))
            if not isinstance(xv, int) or not isinstance(yv, int):
                raise RefError("non-constant coordinates")
            key = (proto, xv, yv)
            self.places.append((proto, xv, yv, props))
            self.bind(name, EntRef(key))
        elif k == "enable":
            ent = self.lookup(s[1])
            v = self.ev(s[2])
            if isinstance(v, int):
                cond = d.true() if v > 0 else d.false()
                self.enables.append((ent.id, cond, "const"))
            else:
                self.enables.append((ent.id, d.cmp(">", self.as_val(v), d.const(0)), "expr"))
        elif k == "func":
            self.funcs[s[1]] = s
        elif k == "for":
            _, var, it, body = s
            for i in iteration_values(it, self):
                scope = {var: i}
                self.env.append(scope)
                self.depth += 1
                pend = []
                self._pending.append(pend)
                try:
                    for b in body:
                        self.stmt(b)
                    if not self._in_call:
                        for (nm, val) in pend:
                            if (id(scope), nm) not in self._local_consumed and scope.get(nm) is val:
                                self.loop_outputs.setdefault(nm, []).append(val)
                finally:
                    self._pending.pop()
                    self.depth -= 1
                    self.env.pop()
                    self._local_consumed = {k for k in self._local_consumed if k[0] != id(scope)}
        elif k == "expr":
            self.ev(s[1])
        elif k == "import":
            from .libdoc import LIBS

            base = s[1].split("/")[-1]
            if base in LIBS:
                self.lib.update(LIBS[base])
            else:
                raise RefError("imports of generated files are pasted by the generator (twin)")
        elif k == "raw":
            raise RefError("raw statement")
        else:
            raise RefError(k)

    def run(self, stmts):
        for s in stmts:
            self.stmt(s)
        return self

    def output_names(self):
        """top-level Signal/Bundle names that no other statement consumes"""
        return [n for n in self.toplevel_names if n not in self.consumed]


from .dom import IntDom as _IntDom  # noqa: E402



def _int_oracle(kind, a, b):
    """compile-time `int` arithmetic in the reference: exact mathematics wrapped to int32 where that is
    what repeated run-time multiplication gives; everything the circuit model leaves uninterpreted is
    outside the claim"""
    if kind == "pow" and b >= 0:
        return pow(a, b, 1 << 32)
    raise RefError(f"uninterpreted corner {kind}({a},{b}) in constant arithmetic")


_INT = _IntDom(uf_oracle=_int_oracle)


def iteration_values(it, interp=None):
    """mathematical definition of the loop sequence (documentation): a, a+s, ... strictly before b"""

    def val(b):
        if isinstance(b, int):
            return b
        v = interp.lookup(b)
        if not isinstance(v, int):
            raise RefError("non-int loop bound")
        return v

    if it[0] == "list":
        return list(it[1])
    a, b = val(it[1]), val(it[2])
    if it[3] is None:
        st = 1 if a <= b else -1
    else:
        st = val(it[3])
    if st == 0:
        raise RefError("zero step")
    out = []
    i = a
    while (st > 0 and i < b) or (st < 0 and i > b):
        out.append(i)
        i += st
        if len(out) > 5000:
            raise RefError("loop too long")
    return out


def referenced_names(e, acc=None):
    acc = set() if acc is None else acc
    if isinstance(e, list):
        if e and e[0] == "v":
            acc.add(e[1])
        elif e and e[0] in ("read", "out"):
            acc.add(e[1])
        for x in e[1:]:
            if isinstance(x, list):
                referenced_names(x, acc)
    return acc


# ======================================================================================
#  AST utilities for twins
# ======================================================================================


def rename_expr(e, f):
    if not isinstance(e, list):
        return e
    k = e[0] if e else None
    if k == "v":
        return ["v", f(e[1])]
    if k in ("read", "out"):
        return [k, f(e[1])]
    if k == "call":
        return ["call", f(e[1]), [rename_expr(a, f) for a in e[2]]]
    if k in ("proj",):
        T = e[2]
        if isinstance(T, list) and T[0] == "typeof":
            T = ["typeof", f(T[1])]
        return ["proj", rename_expr(e[1], f), T]
    if k == "lit":
        T = e[1]
        if isinstance(T, list) and T[0] == "typeof":
            T = ["typeof", f(T[1])]
        return ["lit", T, rename_expr(e[2], f)]
    if k == "sel":
        return ["sel", rename_expr(e[1], f), e[2]]
    if k == "bundle":
        return ["bundle", [rename_expr(a, f) for a in e[1]]]
    if k in ("bin", "cmp"):
        return [k, e[1], rename_expr(e[2], f), rename_expr(e[3], f)]
    return [k] + [rename_expr(x, f) if isinstance(x, list) else x for x in e[1:]]


def rename_stmt(s, f):
    k = s[0]
    if k == "input":
        return ["input", f(s[1]), s[2], s[3]]
    if k in ("int", "sig", "bun"):
        return [k, f(s[1]), rename_expr(s[2], f)]
    if k == "mem":
        return ["mem", f(s[1]), s[2]]
    if k == "write":
        return ["write", f(s[1]), rename_expr(s[2], f), rename_expr(s[3], f) if s[3] is not None else None]
    if k == "latch":
        return ["latch", f(s[1]), rename_expr(s[2], f), rename_expr(s[3], f), rename_expr(s[4], f), s[5]]
    if k == "place":
        return ["place", f(s[1]), s[2], rename_expr(s[3], f), rename_expr(s[4], f), s[5]]
    if k == "enable":
        return ["enable", f(s[1]), rename_expr(s[2], f)]
    if k == "func":
        return ["func", f(s[1]), [[t, f(n)] for t, n in s[2]], [rename_stmt(b, f) for b in s[3]], rename_expr(s[4], f) if s[4] is not None else None]
    if k == "for":
        it = s[2]
        if it[0] == "range":
            it = ["range"] + [f(b) if isinstance(b, str) else b for b in it[1:]]
        return ["for", f(s[1]), it, [rename_stmt(b, f) for b in s[3]]]
    if k == "expr":
        return ["expr", rename_expr(s[1], f)]
    return s


def rename_prog(stmts, prefix):
    return [rename_stmt(s, lambda n: prefix + n) for s in stmts]


def shift_places(stmts, dx, dy):
    """move every constant-coordinate place by (dx, dy)"""
    out = []
    for s in stmts:
        if s[0] == "place" and s[3][0] == "k" and s[4][0] == "k":
            s = ["place", s[1], s[2], ["k", s[3][1] + dx], ["k", s[4][1] + dy], s[5]]
        elif s[0] in ("func", "for"):
            s = list(s)
            s[3] = shift_places(s[3], dx, dy)
        out.append(s)
    return out


def interleavings(p, q, limit, rnd):
    """up to `limit` order-preserving merges of two statement lists (always P;Q, Q;P and zip)"""
    res = [p + q, q + p]
    z = []
    for i in range(max(len(p), len(q))):
        if i < len(p):
            z.append(p[i])
        if i < len(q):
            z.append(q[i])
    res.append(z)
    while len(res) < limit:
        a, b, m = list(p), list(q), []
        while a or b:
            if a and (not b or rnd.random() < 0.5):
                m.append(a.pop(0))
            else:
                m.append(b.pop(0))
        if m not in res:
            res.append(m)
        else:
            break
    return res[:limit]
