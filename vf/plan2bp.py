"""The PLANNED circuit: an independent reading of the compiler's LayoutPlan (placements with their properties and the
planned wire connections) as a blueprint-shaped dict in the schema of vf.bp.  Nothing here calls draftsman's
exporter or the repository's PlanEntityEmitter; it is the oracle side of C07 ("the printed text carries the whole
planned circuit").  Also: normalisation of control_behavior dicts (defaults restored) for structural comparison.
"""
from __future__ import annotations

from .bp import CMP_MAP

COMBS = ("arithmetic-combinator", "decider-combinator", "constant-combinator")


def _sig(name):
    return {"name": name} if isinstance(name, str) else None


def _nets(wires):
    if wires is None:
        return None
    ws = set(wires)
    return {"red": "red" in ws, "green": "green" in ws}


def _arith(props):
    ac = {"operation": props.get("operation", "+")}
    left, right = props.get("left_operand"), props.get("right_operand")
    out = props.get("output_signal")
    if out == "signal-each" and left != "signal-each" and right != "signal-each":
        out = "signal-0"
    if isinstance(left, str):
        ac["first_signal"] = _sig(left)
    elif left is not None:
        ac["first_constant"] = int(left)
    if isinstance(right, str):
        ac["second_signal"] = _sig(right)
    elif right is not None:
        ac["second_constant"] = int(right)
    ac["output_signal"] = _sig(out)
    ac["first_signal_networks"] = _nets(props.get("left_operand_wires", {"red", "green"}))
    ac["second_signal_networks"] = _nets(props.get("right_operand_wires", {"red", "green"}))
    return {"arithmetic_conditions": ac}


def _decider(props):
    conds_in = props.get("conditions") or props.get("multi_conditions")
    conds = []
    if conds_in:
        for c in conds_in:
            d = {"comparator": c.get("comparator", ">"), "compare_type": c.get("compare_type", "or")}
            if c.get("first_signal"):
                d["first_signal"] = _sig(c["first_signal"])
                if c.get("first_signal_wires"):
                    d["first_signal_networks"] = _nets(c["first_signal_wires"])
            elif c.get("first_constant") is not None:
                d["first_signal"] = _sig("signal-0")
                d["constant"] = c["first_constant"]
            if c.get("second_signal"):
                d["second_signal"] = _sig(c["second_signal"])
                if c.get("second_signal_wires"):
                    d["second_signal_networks"] = _nets(c["second_signal_wires"])
            elif c.get("second_constant") is not None:
                d["constant"] = c["second_constant"]
            conds.append(d)
    else:
        d = {"comparator": props.get("operation", "=")}
        left, right = props.get("left_operand"), props.get("right_operand")
        if isinstance(left, int) and not isinstance(left, bool):
            d["first_signal"] = _sig("signal-0")
            d["constant"] = left
        else:
            d["first_signal"] = _sig(left)
            d["first_signal_networks"] = _nets(props.get("left_operand_wires", {"red", "green"}))
        if isinstance(right, int) and not isinstance(right, bool):
            d["constant"] = right
        else:
            d["second_signal"] = _sig(right)
            d["second_signal_networks"] = _nets(props.get("right_operand_wires", {"red", "green"}))
        conds.append(d)
    copy = bool(props.get("copy_count_from_input", False))
    out = {"signal": _sig(props.get("output_signal")), "copy_count_from_input": copy}
    ov = props.get("output_value", 1)
    if not copy and isinstance(ov, int):
        out["constant"] = ov
    if copy and props.get("output_value_wires"):
        out["networks"] = _nets(props["output_value_wires"])
    return {"decider_conditions": {"conditions": conds, "outputs": [out]}}


def _constant(props):
    filters = []
    signals = props.get("signals")
    if signals:
        for i, (n, v) in enumerate(signals.items()):
            filters.append({"index": i + 1, "name": n, "count": int(v)})
    elif props.get("signal_name"):
        filters.append({"index": 1, "name": props["signal_name"], "count": int(props.get("value", 0) or 0)})
    if not filters:
        return None
    return {"sections": {"sections": [{"index": 1, "filters": filters}]}}


def _entity_cb(props, signal_type_map):
    pw = props.get("property_writes") or {}
    en = pw.get("enable")
    if not en:
        return None
    t = en.get("type")
    if t == "inline_comparison":
        cd = en.get("comparison_data", {})
        left = cd.get("left_signal")
        return {"circuit_enabled": True, "circuit_condition": {"first_signal": _sig(left if isinstance(left, str) else "signal-0"), "comparator": cd.get("comparator"), "constant": cd.get("right_constant")}}
    if t == "inline_bundle_condition":
        return {"circuit_enabled": True, "circuit_condition": {"first_signal": _sig(en.get("signal")), "comparator": en.get("operator"), "constant": en.get("constant")}}
    if t == "signal":
        ref = en["signal_ref"]
        key = getattr(ref, "signal_type", None)
        info = (signal_type_map or {}).get(key)
        name = (info.get("name", key) if isinstance(info, dict) else (info or key))
        return {"circuit_enabled": True, "circuit_condition": {"first_signal": _sig(name), "comparator": ">", "constant": 0}}
    if t == "constant":
        return {"circuit_enabled": bool(en.get("value"))}
    return None


def plan_to_bp(layout_plan, signal_type_map=None, describe=None):
    """LayoutPlan -> {'blueprint': {'entities': [...], 'wires': [...]}} (entity numbering = sorted placement ids)"""
    ents, num = [], {}
    for i, pid in enumerate(sorted(layout_plan.entity_placements), start=1):
        pl = layout_plan.entity_placements[pid]
        num[pid] = i
        props = pl.properties
        e = {"entity_number": i, "name": pl.entity_type, "position": {"x": float(pl.position[0]), "y": float(pl.position[1])} if pl.position is not None else {"x": 0.0, "y": 0.0}, "plan_id": pid}
        if describe is not None:
            e["player_description"] = describe(props.get("debug_info", {}))
        if props.get("entity_obj") is None and pl.entity_type == "arithmetic-combinator":
            e["control_behavior"] = _arith(props)
        elif props.get("entity_obj") is None and pl.entity_type == "decider-combinator":
            e["control_behavior"] = _decider(props)
        elif props.get("entity_obj") is None and pl.entity_type == "constant-combinator":
            cb = _constant(props)
            if cb:
                e["control_behavior"] = cb
        else:
            cb = _entity_cb(props, signal_type_map)
            if cb:
                e["control_behavior"] = cb
        ents.append(e)
    wires = []
    skipped = []
    for c in layout_plan.wire_connections:
        if c.source_entity_id not in num or c.sink_entity_id not in num:
            skipped.append((c.source_entity_id, c.sink_entity_id))
            continue
        base = 1 if c.wire_color == "red" else 2
        t1 = layout_plan.entity_placements[c.source_entity_id].entity_type
        t2 = layout_plan.entity_placements[c.sink_entity_id].entity_type
        c1 = base + (2 if (c.source_side == "output" and t1 in ("arithmetic-combinator", "decider-combinator")) else 0)
        c2 = base + (2 if (c.sink_side == "output" and t2 in ("arithmetic-combinator", "decider-combinator")) else 0)
        wires.append([num[c.source_entity_id], c1, num[c.sink_entity_id], c2])
    return {"blueprint": {"entities": ents, "wires": wires, "label": layout_plan.blueprint_label}, "skipped_wires": skipped}


# ======================================================================================
#  normalisation for structural comparison
# ======================================================================================


def _nsig(s):
    if s is None:
        return None
    return s.get("name") if isinstance(s, dict) else s


def _nnet(d):
    if d is None:
        return (True, True)
    return (bool(d.get("red", True)), bool(d.get("green", True)))


def norm_cb(name, cb):
    """canonical form of a control_behavior with Factorio defaults restored"""
    cb = cb or {}
    if name == "arithmetic-combinator":
        ac = cb.get("arithmetic_conditions") or {}
        fs, ss = _nsig(ac.get("first_signal")), _nsig(ac.get("second_signal"))
        return ("arith", ac.get("operation", "*"), fs, None if fs else int(ac.get("first_constant", 0) or 0), _nnet(ac.get("first_signal_networks")) if fs else None,
                ss, None if ss else int(ac.get("second_constant", 0) or 0), _nnet(ac.get("second_signal_networks")) if ss else None, _nsig(ac.get("output_signal")))
    if name == "decider-combinator":
        dc = cb.get("decider_conditions") or {}
        conds = []
        for i, c in enumerate(dc.get("conditions") or []):
            fs, ss = _nsig(c.get("first_signal")), _nsig(c.get("second_signal"))
            conds.append((CMP_MAP.get(c.get("comparator", "<"), c.get("comparator")), fs, _nnet(c.get("first_signal_networks")) if fs else None, ss, _nnet(c.get("second_signal_networks")) if ss else None,
                          None if ss else int(c.get("constant", 0) or 0), "first" if i == 0 else c.get("compare_type", "or")))
        outs = []
        for o in dc.get("outputs") or []:
            copy = bool(o.get("copy_count_from_input", True))
            outs.append((_nsig(o.get("signal")), copy, None if copy else int(o.get("constant", 1)), _nnet(o.get("networks")) if copy else None))
        return ("decider", tuple(conds), tuple(outs))
    if name == "constant-combinator":
        fl = []
        for sec in ((cb.get("sections") or {}).get("sections")) or []:
            for f in sec.get("filters") or []:
                if f.get("name") is not None:
                    fl.append((f["name"], int(f.get("count", 0))))
        return ("const", tuple(sorted(fl)))
    cc = cb.get("circuit_condition")
    en = bool(cb.get("circuit_enabled", False))
    if cc is None:
        return ("entity", en, None)
    ss = _nsig(cc.get("second_signal"))
    return ("entity", en, (CMP_MAP.get(cc.get("comparator", "<"), cc.get("comparator")), _nsig(cc.get("first_signal")), ss, None if ss else int(cc.get("constant", 0) or 0)))
