"""Corpus runner shared by the E1-based checks: load /verif/corpus/<name>.json, run every case through the
worker pool (real compiler + solver queries), classify findings against known_findings.json, write evidence.
"""
from __future__ import annotations

import json
import os
import time

from . import driver, work
from .report import ROOT, Run

BUILDS2 = [{"tag": "opt", "optimize": True}, {"tag": "noopt", "optimize": False}]


def load_corpus(name):
    with open(os.path.join(ROOT, "corpus", f"{name}.json")) as f:
        return json.load(f)


def make_task(case, defaults):
    t = {"key": case["id"], "kind": case.get("kind", defaults.get("kind", "stateless")), "builds": case.get("builds", case.get("params", {}).get("builds", defaults.get("builds", BUILDS2))), "modes": case.get("modes", defaults.get("modes", ["full", "min"]))}
    for k in ("stmts", "pairs", "outputs", "check_entities", "files", "main", "kernel", "op", "pair"):
        if k in case:
            t[k] = case[k]
    t.update(case.get("params", {}))
    for k, v in defaults.items():
        t.setdefault(k, v)
    return t


def run_cases(run: Run, cases, defaults, workers=None):
    """returns per-case results; findings are routed through run.violation"""
    tasks = [make_task(c, defaults) for c in cases]
    comp = driver.Compiler(workers=workers, seed=run.seed)
    stats = {"cases": len(cases), "compiles": 0, "accepted_compiles": 0, "rejected_cases": 0, "cases_with_findings": 0, "clean_cases": 0, "compile_seconds": 0.0}
    results = {}
    try:
        for t, r in comp.map(tasks, fn=work.do_task):
            results[t["key"]] = r
            if "rec" not in r:
                # a killed/timed-out worker is never a pass and never an alarm: inconclusive, unless it is systematic
                stats["worker_failures"] = stats.get("worker_failures", 0) + 1
                run.inconc(t["key"], r.get("error", "worker failure"))
                continue
            run.merge(r["rec"])
            stats["compiles"] += len(r["compiled"])
            stats["accepted_compiles"] += r["ok_builds"]
            stats["compile_seconds"] += sum((c.get("secs") or 0) for c in r["compiled"])
            if r["ok_builds"] == 0:
                stats["rejected_cases"] += 1
            if r["findings"]:
                stats["cases_with_findings"] += 1
            elif r["ok_builds"]:
                stats["clean_cases"] += 1
            for f in r["findings"]:
                replay = {k: v for k, v in f.items() if k not in ("key", "what")}
                replay["case"] = t["key"]
                replay["task"] = t
                replay["replay_cmd"] = "cd /verif && .venv/bin/python -m vf.replay <this file>"
                run.violation(f["key"], f["what"], replay)
    finally:
        comp.close()
    stats["compile_seconds"] = round(stats["compile_seconds"], 1)
    if stats.get("worker_failures", 0) > max(4, len(cases) // 2):
        run.harness_error("pool", f"{stats['worker_failures']} of {len(cases)} tasks lost to worker failures/timeouts")
    return results, stats


def select(corpus, tier):
    cases = corpus["cases"]
    if tier == "quick":
        return [c for c in cases if c.get("quick")]
    return cases
