#!/bin/sh
# Build /verif/.venv offline: overlay on /venv (repo deps) + z3-solver + crosshair-tool from the wheelhouse.
set -e
cd "$(dirname "$0")"
if [ -x .venv/bin/python ] && .venv/bin/python -c "import z3, crosshair, dsl_compiler, draftsman" 2>/dev/null; then
  exit 0
fi
rm -rf .venv
/venv/bin/python -m venv .venv
SP=.venv/lib/python3.12/site-packages
printf "import site; site.addsitedir('/venv/lib/python3.12/site-packages')\n/repo\n" > $SP/_overlay.pth
PIP_NO_INDEX=1 .venv/bin/pip install -q --no-index --find-links /opt/veriftools/wheels z3-solver crosshair-tool
.venv/bin/python -c "import z3, crosshair, dsl_compiler, draftsman; print('verif venv ok, z3', z3.get_version_string())"
