"""CrossHair contract file: properties over calls of REAL compiler functions (PEP-316 docstrings).
Only "Confirmed over all paths" counts as a verdict; anything else is inconclusive (see vf/crosshair_run.py)."""
from __future__ import annotations

from dsl_compiler.src.ast.statements import ForStmt
from dsl_compiler.src.layout.memory_builder import MemoryBuilder

OPS = ["<", "<=", ">", ">=", "==", "!="]


def _reference_range(start: int, stop: int, step: int) -> list:
    out = []
    i = start
    if step > 0:
        while i < stop:
            out.append(i)
            i += step
    else:
        while i > stop:
            out.append(i)
            i += step
    return out


def c16_iteration_values_explicit_step(start: int, stop: int, step: int) -> bool:
    """
    pre: -8 <= start <= 8 and -8 <= stop <= 8 and -4 <= step <= 4 and step != 0
    post: _
    """
    got = ForStmt("i", start, stop, step, None, []).get_iteration_values()
    return got == _reference_range(start, stop, step)


def c16_iteration_values_default_step(start: int, stop: int) -> bool:
    """
    pre: -8 <= start <= 8 and -8 <= stop <= 8
    post: _
    """
    got = ForStmt("i", start, stop, None, None, []).get_iteration_values()
    return got == _reference_range(start, stop, 1 if start <= stop else -1)


def c16_iteration_values_twin_reachability(start: int, stop: int, step: int) -> bool:
    """
    pre: -8 <= start <= 8 and -8 <= stop <= 8 and -4 <= step <= 4 and step != 0
    post: _
    """
    # reachability twin: this postcondition is FALSE for some inputs, CrossHair must find one
    return len(ForStmt("i", start, stop, step, None, []).get_iteration_values()) < 3


def _cmp(op: str, x: int, c: int) -> bool:
    if op == "<":
        return x < c
    if op == "<=":
        return x <= c
    if op == ">":
        return x > c
    if op == ">=":
        return x >= c
    if op == "==":
        return x == c
    return x != c


def c05_invert_comparison_is_negation(opi: int, c: int, x: int) -> bool:
    """
    pre: 0 <= opi < 6
    post: _
    """
    op = OPS[opi]
    mb = MemoryBuilder.__new__(MemoryBuilder)
    inv_op, inv_c = mb._invert_comparison(op, c)
    return inv_op in OPS and _cmp(inv_op, x, inv_c) == (not _cmp(op, x, c))
