"""CrossHair contract file: properties over calls of REAL compiler functions (PEP-316 docstrings).
Only "Confirmed over all paths" counts as a verdict; anything else is inconclusive (see vf/crosshair_run.py)."""
from __future__ import annotations

from dsl_compiler.src.ast.statements import ForStmt
from dsl_compiler.src.layout.memory_builder import MemoryBuilder

OPS = ["<", "<=", ">", ">=", "==", "!="]


def _reference_range(start: int, stop: int, step: int) -> list:
    out = []
    i = start
    if step > 0:
        while i < stop:
            out.append(i)
            i += step
    else:
        while i > stop:
            out.append(i)
            i += step
    return out


def c16_iteration_values_explicit_step(start: int, stop: int, step: int) -> bool:
    """
    pre: -8 <= start <= 8 and -8 <= stop <= 8 and -4 <= step <= 4 and step != 0
    post: _
    """
    got = ForStmt("i", start, stop, step, None, []).get_iteration_values()
    return got == _reference_range(start, stop, step)


def c16_iteration_values_default_step(start: int, stop: int) -> bool:
    """
    pre: -8 <= start <= 8 and -8 <= stop <= 8
    post: _
    """
    got = ForStmt("i", start, stop, None, None, []).get_iteration_values()
    return got == _reference_range(start, stop, 1 if start <= stop else -1)


def c16_iteration_values_twin_reachability(start: int, stop: int, step: int) -> bool:
    """
    pre: -8 <= start <= 8 and -8 <= stop <= 8 and -4 <= step <= 4 and step != 0
    post: _
    """
    # reachability twin: this postcondition is FALSE for some inputs, CrossHair must find one
    return len(ForStmt("i", start, stop, step, None, []).get_iteration_values()) < 3


def _cmp(op: str, x: int, c: int) -> bool:
    if op == "<":
        return x < c
    if op == "<=":
        return x <= c
    if op == ">":
        return x > c
    if op == ">=":
        return x >= c
    if op == "==":
        return x == c
    return x != c


def c05_invert_comparison_is_negation(opi: int, c: int, x: int) -> bool:
    """
    pre: 0 <= opi < 6
    post: _
    """
    op = OPS[opi]
    mb = MemoryBuilder.__new__(MemoryBuilder)
    inv_op, inv_c = mb._invert_comparison(op, c)
    return inv_op in OPS and _cmp(inv_op, x, inv_c) == (not _cmp(op, x, c))


# ---------------------------------------------------------------------------------------------
#  C10: CSE expression key - equal keys must imply equal operator, operands, output type and output mode
# ---------------------------------------------------------------------------------------------
from dsl_compiler.src.ir.nodes import IRArith, IRDecider  # noqa: E402
from dsl_compiler.src.ir.optimizer import CSEOptimizer  # noqa: E402

_TYPES = ["signal-A", "signal-B", "iron-plate"]
_AOPS = ["+", "-", "*", "/", "%", "AND"]


def _mk_decider(opi: int, left: int, right: int, outv: int, ti: int, copy: bool) -> IRDecider:
    d = IRDecider("n", _TYPES[ti])
    d.test_op = OPS[opi]
    d.left, d.right, d.output_value, d.copy_count_from_input = left, right, outv, copy
    return d


def c10_cse_key_injective_decider(o1: int, l1: int, r1: int, v1: int, t1: int, c1: bool, o2: int, l2: int, r2: int, v2: int, t2: int, c2: bool) -> bool:
    """
    pre: 0 <= o1 < 6 and 0 <= o2 < 6 and 0 <= t1 < 3 and 0 <= t2 < 3
    pre: -2 <= l1 <= 2 and -2 <= l2 <= 2 and -2 <= r1 <= 2 and -2 <= r2 <= 2 and 0 <= v1 <= 2 and 0 <= v2 <= 2
    post: _
    """
    cse = CSEOptimizer()
    k1 = cse._make_key(_mk_decider(o1, l1, r1, v1, t1, c1))
    k2 = cse._make_key(_mk_decider(o2, l2, r2, v2, t2, c2))
    same = (o1, l1, r1, v1, t1, c1) == (o2, l2, r2, v2, t2, c2)
    return (k1 != k2) or same


def c10_cse_key_injective_arith(o1: int, l1: int, r1: int, t1: int, o2: int, l2: int, r2: int, t2: int) -> bool:
    """
    pre: 0 <= o1 < 3 and 0 <= o2 < 3 and 0 <= t1 < 2 and 0 <= t2 < 2
    pre: 0 <= l1 <= 1 and 0 <= l2 <= 1 and 0 <= r1 <= 1 and 0 <= r2 <= 1
    post: _
    """
    cse = CSEOptimizer()

    def mk(o, l, r, t):
        a = IRArith("n", _TYPES[t])
        a.op, a.left, a.right = _AOPS[o], l, r
        return a

    k1, k2 = cse._make_key(mk(o1, l1, r1, t1)), cse._make_key(mk(o2, l2, r2, t2))
    return (k1 != k2) or (o1, l1, r1, t1) == (o2, l2, r2, t2)
